import EgoVerif.C02.Table
/-
C02 — the concrete primitives used by the driver (Go `int` with 64-bit wrap-around, strings, bools), the model
of the optimizer's fast constant arithmetic (`tryConstantArithmetic`, optimizer.go) on them, and the proofs that
they satisfy the hypotheses of the abstract rule theorems.  Mixed-type operands are outside this value model
(the general integer-kind arithmetic is property C03's model).
-/
namespace EgoVerif.C02

/-- Go `int` overflow: two's complement, 64 bits -/
def wrap64 (n : Int) : Int := Int.bmod n (2 ^ 64)

/-- add/sub/mul/divByteCode on two ints or two strings (data.Normalize is the identity on same-typed operands) -/
def cArith (_m : Mode) (op : ArOp) (a b : Val) : Except Err Base :=
  match a.unwrap, b.unwrap with
  | .plain (.int x), .plain (.int y) =>
    match op with
    | .add => .ok (.int (wrap64 (x + y)))
    | .sub => .ok (.int (wrap64 (x - y)))
    | .mul => .ok (.int (wrap64 (x * y)))
    | .div => if y = 0 then .error .divideByZero else .ok (.int (wrap64 (Int.tdiv x y)))
  | .plain (.str x), .plain (.str y) =>
    match op with
    | .add => .ok (.str (x ++ y))
    | _ => .error (.other 9)             -- string subtraction / repetition: outside the value model
  | .plain .nil, _ => .error .invalidType
  | _, .plain .nil => .error .invalidType
  | _, _ => .error (.other 9)

def cmpInt (op : CmpOp) (x y : Int) : Bool :=
  match op with
  | .lt => x < y | .le => x ≤ y | .gt => x > y | .ge => x ≥ y | .eq => x == y | .ne => x != y

def cmpStr (op : CmpOp) (x y : String) : Bool :=
  match op with
  | .lt => x < y | .le => x ≤ y | .gt => x > y | .ge => x ≥ y | .eq => x == y | .ne => x != y

/-- the comparison handlers on two ints, two strings or two bools -/
def cCmp (_m : Mode) (op : CmpOp) (a b : Val) : Except Err Bool :=
  match a.unwrap, b.unwrap with
  | .plain (.int x), .plain (.int y) => .ok (cmpInt op x y)
  | .plain (.str x), .plain (.str y) => .ok (cmpStr op x y)
  | .plain (.bool x), .plain (.bool y) =>
    match op with
    | .eq => .ok (x == y)
    | .ne => .ok (x != y)
    | _ => .error .invalidType
  | _, _ => .error (.other 9)

/-- incrementByteCode's strict-mode kind test, Normalize and `+`: the same addition as addByteCode on two ints
    or two strings; a nil step is a kind mismatch in strict mode (Add reports it as an invalid type instead) -/
def cIncr (m : Mode) (b : Base) (k : Val) : Except Err Base :=
  match b, k.unwrap with
  | .int x, .plain (.int y) => .ok (.int (wrap64 (x + y)))
  | .str x, .plain (.str y) => .ok (.str (x ++ y))
  | .int _, .plain .nil => if m == .strict && !k.isConst then .error .typeMismatch else .error (.other 9)
  | .str _, .plain .nil => if m == .strict && !k.isConst then .error .typeMismatch else .error (.other 9)
  | _, _ => .error (.other 9)

/-- the driver's primitives; `incr` is incrementByteCode's switch: same Normalize, same `+` -/
def cPrim : Prim where
  arith := cArith
  cmp := cCmp
  -- checkTypeCore on values of different Go types.  Strict mode: a non-constant is rejected, and a constant is adapted
  -- only between two NUMERIC kinds (isNumericKind) — the value model has one numeric kind (int), so two values of
  -- different types are never both numeric and every such store is ErrInvalidVarType, constant or not.
  -- Relaxed mode (data.Coerce) is outside the value model.
  coerce := fun m _ _ _ => if m == .strict then .error .invalidVarType else .error (.other 8)
  incr := cIncr
  storeIdx := fun _ dest _ _ => match dest with
    | .ref _ => none
    | _ => some .invalidType

/-- the result of an addition has the type of its left operand -/
theorem cArith_add_shape (m : Mode) (b : Base) (k : Val) (r : Base) (h : cArith m .add (.plain b) k = .ok r) :
    (∃ x y, b = .int x ∧ r = .int y) ∨ (∃ x y, b = .str x ∧ r = .str y) := by
  unfold cArith at h
  split at h
  · rename_i x y hx hy
    simp only [Val.unwrap, Val.plain.injEq] at hx
    subst hx
    simp only [Except.ok.injEq] at h
    exact Or.inl ⟨_, _, rfl, h.symm⟩
  · rename_i x y hx hy
    simp only [Val.unwrap, Val.plain.injEq] at hx
    subst hx
    simp only [Except.ok.injEq] at h
    exact Or.inr ⟨_, _, rfl, h.symm⟩
  all_goals simp at h

/-- **the fused increment agrees with Load/Push/Add/Store** on the concrete primitives -/
theorem C02_incr_law_concrete : IncrLaw cPrim := by
  intro st name b k ⟨sym, hg, hv⟩ _ hk2
  by_cases hnil : b = .nil
  · subst hnil
    simp [cPrim, cArith, Val.unwrap]
  · simp only [hnil, ↓reduceIte]
    show (match cArith st.mode .add (.plain b) k with
      | .error e => (Except.error e : Except Err Val)
      | .ok r => checkType cPrim st name (.plain r))
      = (match cIncr st.mode b k with
      | .error e => (Except.error e : Except Err Val)
      | .ok r => checkType cPrim st name (.plain r))
    cases k with
    | plain kb =>
      cases b <;> cases kb <;> simp_all [cArith, cIncr, checkType, checkCore, Val.unwrap, Val.isConst]
      all_goals (try (split <;> simp_all))
    | const kb =>
      cases b <;> cases kb <;> simp_all [cArith, cIncr, checkType, checkCore, Val.unwrap, Val.isConst]
      all_goals (try (split <;> simp_all))
    | marker l => cases b <;> simp_all [cArith, cIncr, Val.unwrap]
    | ref id => cases b <;> simp_all [cArith, cIncr, Val.unwrap]

/-- tryConstantArithmetic (optimizer.go), restricted to the driver's values: string concatenation, and
    int add/sub/mul; everything else (in particular integer division) falls back to executeFragment -/
def tryConstArith (op : ArOp) (a b : Val) : Option Base :=
  match a.unwrap, b.unwrap with
  | .plain (.str x), .plain (.str y) => if op = .add then some (.str (x ++ y)) else none
  | .plain (.int x), .plain (.int y) =>
    match op with
    | .add => some (.int (wrap64 (x + y)))
    | .sub => some (.int (wrap64 (x - y)))
    | .mul => some (.int (wrap64 (x * y)))
    | .div => none
  | _, _ => none

/-- **fold soundness**: a constant the optimizer's fast path computes is the constant the instruction computes,
    in every type mode -/
theorem C02_fold_sound (op : ArOp) (a b : Val) (r : Base) (h : tryConstArith op a b = some r) (m : Mode) :
    cArith m op a b = .ok r := by
  unfold tryConstArith at h
  unfold cArith
  cases ha : a.unwrap <;> cases hb : b.unwrap <;> simp_all
  all_goals (rename_i x y; cases x <;> cases y <;> simp_all)
  all_goals (cases op <;> simp_all)

/-- the four fold rules on the concrete primitives: whenever the fast path folds, the folded Push is equivalent -/
theorem C02_fold_rule_concrete (oc : Opc) (op : ArOp) (hop : arOf oc = some op) (a b : Val) (r : Base)
    (h : tryConstArith op a b = some r) (st : MState) :
    exec cPrim [⟨.push, Opd.ofVal a⟩, ⟨.push, Opd.ofVal b⟩, ⟨oc, .none⟩] st
      = exec cPrim [⟨.push, Opd.ofVal (.plain r)⟩] st := by
  have hm : a.isMarker = false ∧ b.isMarker = false := by
    unfold tryConstArith at h
    cases a <;> cases b <;> simp_all [Val.unwrap, Val.isMarker]
  exact sound_fold cPrim oc op hop a b r st hm (C02_fold_sound op a b r h st.mode)

example : tryConstArith .add (.const (.int 2)) (.const (.int 3)) = some (.int 5) := by decide
example : tryConstArith .add (.const (.str "a")) (.const (.str "b")) = some (.str "ab") := by decide

end EgoVerif.C02
