import EgoVerif.C02.Rules
/-
C02 — soundness of each canonical rule shape, stated on the instantiated instruction lists.
`P` is an arbitrary `Prim`: no lemma looks inside arithmetic, comparison or coercion.
-/
namespace EgoVerif.C02
variable (P : Prim)

@[simp] theorem exec_nil (st : MState) : exec P [] st = .ok st := rfl
theorem exec_cons (i : Instr) (r : List Instr) (st : MState) :
  exec P (i :: r) st = (match step1 P i st with | .error e => .error e | .ok st' => exec P r st') := rfl
theorem exec_one (i : Instr) (st : MState) : exec P [i] st = step1 P i st := by
  simp only [exec_cons]; cases step1 P i st <;> rfl

theorem ofVal_nil : Opd.ofVal (.plain .nil) = .none := by simp [Opd.ofVal]
theorem ofVal_ne {v : Val} (h : v ≠ .plain .nil) : Opd.ofVal v = .val v := by simp [Opd.ofVal, h]
theorem ofVal_mLet : Opd.ofVal mLet = .val mLet := by decide
theorem ofVal_int (n : Int) : Opd.ofVal (vInt n) = .val (vInt n) := by simp [Opd.ofVal, vInt]
theorem ofVal_str (s : String) : Opd.ofVal (vStr s) = .val (vStr s) := by simp [Opd.ofVal, vStr]

/-- pushing an instantiated placeholder operand pushes the bound value (nil operand = nil value) -/
theorem stepPush_ofVal (v : Val) (st : MState) : stepPush (Opd.ofVal v) st = .ok (push st v) := by
  by_cases h : v = .plain .nil
  · subst h; rfl
  · rw [ofVal_ne h]; rfl

theorem exec_push (v : Val) (rest : List Instr) (st : MState) :
    exec P (⟨.push, Opd.ofVal v⟩ :: rest) st = exec P rest (push st v) := by
  rw [exec_cons]; simp only [step1]; rw [stepPush_ofVal]

/-- names: `nameOfArg` of an instantiated operand is `asName` of the bound value -/
theorem nameOfArg_ofVal (v : Val) : nameOfArg (Opd.ofVal v) = v.asName := by
  by_cases h : v = .plain .nil
  · subst h; rfl
  · rw [ofVal_ne h]; rfl

/-! ### 1 "Assignment optimized away" -/
theorem sound_letNoop (st : MState) (h : st.fp ≤ st.stack.length) :
    exec P [⟨.push, Opd.ofVal mLet⟩, ⟨.dropToMarker, Opd.ofVal mLet⟩] st = exec P [] st := by
  have : ¬ (st.stack.length + 1 ≤ st.fp) := by omega
  rw [exec_push, exec_one, ofVal_mLet]
  simp [step1, stepDropToMarker, push, mLet, dropTo, this]

/-! ### 2 "Write constant to null variable" -/
theorem sound_pushDrop (st : MState) (v : Val) :
    exec P [⟨.push, Opd.ofVal v⟩, ⟨.drop, Opd.ofVal (vInt 1)⟩] st = exec P [] st := by
  rw [exec_push, exec_one, ofVal_int]
  simp [step1, stepDrop, push, countOf, vInt, Val.asInt?, popN, pop]

/-! ### 3 "Store to null variable": sound unless a StackMarker is on top -/
def topNotMarker (st : MState) : Prop := ∀ v rest, st.stack = v :: rest → v.isMarker = false

theorem sound_storeDiscard (st : MState) (h : topNotMarker st) :
    exec P [⟨.store, Opd.ofVal (vStr "_")⟩] st = exec P [⟨.drop, .none⟩] st := by
  rw [exec_one, exec_one, ofVal_str]
  cases hs : st.stack with
  | nil => simp [step1, stepStore, stepDrop, vStr, pop, hs, countOf, popN]
  | cons v rest =>
    have hm := h v rest hs
    have hp : isPrefixed "_" = false := by decide
    simp [step1, stepStore, stepDrop, vStr, pop, hs, countOf, popN, storeCore, nameOfArg, Val.asName, hp, hm]

/-! ### 6 comparison with a constant -/
theorem stepCmp_push (op : CmpOp) (v : Val) (st : MState) :
    stepCmp P op .none (push st v) = stepCmp P op (.one v) st := by
  simp [stepCmp, push, pop]

theorem sound_cmpConst (oc : Opc) (op : CmpOp) (hop : cmpOf oc = some op) (v : Val) (st : MState) :
    exec P [⟨.push, Opd.ofVal v⟩, ⟨oc, .none⟩] st = exec P [⟨oc, .one v⟩] st := by
  rw [exec_push, exec_one, exec_one]
  cases oc <;> simp [cmpOf] at hop <;> subst hop <;> simp only [step1] <;> exact stepCmp_push P _ v st

/-! ### 7 "Sequential AtLine opcodes" -/
theorem stepAtLine_line (o : Opd) (st : MState) (n : Int) :
    stepAtLine o { st with line := n } = stepAtLine o st := by
  simp only [stepAtLine]

theorem sound_atLine (a b : Val) (st : MState) (ha : a.asInt?.isSome) :
    exec P [⟨.atLine, Opd.ofVal a⟩, ⟨.atLine, Opd.ofVal b⟩] st = exec P [⟨.atLine, Opd.ofVal b⟩] st := by
  obtain ⟨n, hn⟩ := Option.isSome_iff_exists.mp ha
  have ha' : Opd.ofVal a = .val a := by
    apply ofVal_ne; intro h; subst h; simp [Val.asInt?] at hn
  have h1 : step1 P ⟨.atLine, .val a⟩ st = .ok { st with line := n } := by simp [step1, stepAtLine, hn]
  rw [ha', exec_cons, h1]
  simp only []
  rw [exec_one, exec_one]
  simp only [step1]
  exact stepAtLine_line _ st n

/-! ### 9 "Collapse constant Push and CreateAndStore" -/
theorem sound_pushCreateAndStore (v : Val) (s : String) (st : MState) (hv : v.isMarker = false) :
    exec P [⟨.push, Opd.ofVal v⟩, ⟨.createAndStore, Opd.ofVal (vStr s)⟩] st
      = exec P [⟨.createAndStore, .two (vStr s) v⟩] st := by
  rw [exec_push, exec_one, exec_one, ofVal_str]
  simp [step1, stepCreateAndStore, push, pop, hv, nameOfArg, vStr]

/-! ### 13 "Push and Storeindex": sound unless the pushed index is nil -/
theorem sound_pushStoreIndex (v : Val) (st : MState) (hv : v ≠ .plain .nil) :
    exec P [⟨.push, Opd.ofVal v⟩, ⟨.storeIndex, .none⟩] st = exec P [⟨.storeIndex, Opd.ofVal v⟩] st := by
  rw [exec_push, exec_one, exec_one, ofVal_ne hv]
  simp [step1, stepStoreIndex, push, pop]

/-! ### 14 "Constant storeAlways": sound unless the pushed value is a marker or a wrapped constant -/
theorem sound_pushStoreAlways (v : Val) (s : String) (st : MState) (hm : v.isMarker = false) (hc : v.isConst = false) :
    exec P [⟨.push, Opd.ofVal v⟩, ⟨.storeAlways, Opd.ofVal (vStr s)⟩] st
      = exec P [⟨.storeAlways, .two (vStr s) v⟩] st := by
  rw [exec_push, exec_one, exec_one, ofVal_str]
  have hu : v.unwrap = v := by cases v <;> simp_all [Val.unwrap, Val.isConst]
  simp [step1, stepStoreAlways, push, pop, hm, nameOfArg, vStr, hu]

/-! ### 15 constant folds: sound when the optimizer's constant is what the instruction computes -/
theorem sound_fold (oc : Opc) (op : ArOp) (hop : arOf oc = some op) (a b : Val) (r : Base) (st : MState)
    (hm : a.isMarker = false ∧ b.isMarker = false) (hr : P.arith st.mode op a b = .ok r) :
    exec P [⟨.push, Opd.ofVal a⟩, ⟨.push, Opd.ofVal b⟩, ⟨oc, .none⟩] st = exec P [⟨.push, Opd.ofVal (.plain r)⟩] st := by
  rw [exec_push, exec_push, exec_push, exec_one]
  cases oc <;> simp [arOf] at hop <;> subst hop <;>
    simp [step1, stepArith, push, pop, hm.1, hm.2, hr]

end EgoVerif.C02
