import EgoVerif.C02.Shapes3
/-
C02 — the proved-rule table: every canonical rule with the side condition under which pattern and
replacement are observationally equal, and the proof.  `C02_rule_sound` (Props.lean) quantifies over it.
-/
namespace EgoVerif.C02

/-- a side condition may mention the binding, the value the optimizer computed for a folded fragment, the state -/
abbrev Side := Binding → Val → MState → Prop

/-- observational equality of two outcomes: same error class, or same state — exactly, or (for the one
    rule that deletes `SymbolOptCreate "_"`) up to the presence of the discard name "_" in the tables -/
def ObsEq (exact : Bool) (a b : R) : Prop :=
  if exact then a = b
  else ∃ s t, a = .ok s ∧ b = .ok t ∧ eraseDiscard s = eraseDiscard t

def SoundUnder (P : Prim) (r : Rule) (exact : Bool) (side : Side) : Prop :=
  ∀ σ frag st, admissible r σ = true → side σ frag st →
    ∃ pi ri, r.instPattern σ = some pi ∧ r.instReplacement σ frag = some ri ∧ ObsEq exact (exec P pi st) (exec P ri st)

structure Entry where
  rule : Rule
  exact : Bool
  side : Prim → Side

def sTrue : Prim → Side := fun _ _ _ _ => True
/-- the stack pointer is never below the frame pointer -/
def sFrame : Prim → Side := fun _ _ _ st => st.fp ≤ st.stack.length
def sTopNotMarker : Prim → Side := fun _ _ _ st => topNotMarker st
def sNoDiscard : Prim → Side := fun _ _ _ st => st.scopes ≠ [] ∧ getSym st.scopes "_" = none
def sIncrement (n k : String) : Prim → Side := fun P σ _ st =>
  IncrLaw P ∧ plainName (σ n).asName ∧ (σ k).isMarker = false ∧ (σ k).unwrap ≠ .plain .nil ∧
  ∀ sym, getSym st.scopes (σ n).asName = some sym → ∃ b, sym.val = .plain b
def sAtLine (l1 : String) : Prim → Side := fun _ σ _ _ => (σ l1).asInt?.isSome
def sLoadThis (n : String) : Prim → Side := fun _ σ _ _ => ∃ s, σ n = vStr s
def sPopScope (c1 c2 : String) : Prim → Side := fun _ σ _ _ => countOperand (σ c1) ∧ countOperand (σ c2)
def sCreateStore (n : String) : Prim → Side := fun _ σ _ st =>
  plainName (σ n).asName ∧ ∃ v rest, st.stack = v :: rest ∧ v.isMarker = false
def sStoreIndex (v : String) : Prim → Side := fun _ σ _ _ => σ v ≠ .plain .nil
def sStoreAlways (v : String) : Prim → Side := fun _ σ _ _ => (σ v).isMarker = false ∧ (σ v).isConst = false
def sFold (op : ArOp) (a b : String) : Prim → Side := fun P σ frag st =>
  (σ a).isMarker = false ∧ (σ b).isMarker = false ∧ ∃ r, P.arith st.mode op (σ a) (σ b) = .ok r ∧ frag = .plain r

def table : List Entry := [
  ⟨rLetNoop, true, sFrame⟩,
  ⟨rPushDrop "", true, sTrue⟩,
  ⟨rStoreDiscard, true, sTopNotMarker⟩,
  ⟨rOptCreateDiscard, false, sNoDiscard⟩,
  ⟨rIncrement "name" "increment", true, sIncrement "name" "increment"⟩,
  ⟨rCmpConst .lessThan "value", true, sTrue⟩,
  ⟨rCmpConst .lessThanOrEqual "value", true, sTrue⟩,
  ⟨rCmpConst .greaterThan "value", true, sTrue⟩,
  ⟨rCmpConst .greaterThanOrEqual "value", true, sTrue⟩,
  ⟨rCmpConst .equal "value", true, sTrue⟩,
  ⟨rCmpConst .notEqual "value", true, sTrue⟩,
  ⟨rAtLine "line1" "line2", true, sAtLine "line1"⟩,
  ⟨rLoadThis "name", true, sLoadThis "name"⟩,
  ⟨rPushCreateAndStore "value" "name", true, sTrue⟩,
  ⟨rLetConstStore "constant" "name", true, sFrame⟩,
  ⟨rPopScope2 "count1" "count2" "count", true, sPopScope "count1" "count2"⟩,
  ⟨rCreateStore "symbolName", true, sCreateStore "symbolName"⟩,
  ⟨rPushStoreIndex "value", true, sStoreIndex "value"⟩,
  ⟨rPushStoreAlways "value" "name", true, sStoreAlways "value"⟩,
  ⟨rFold .add "v1" "v2" "sum", true, sFold .add "v1" "v2"⟩,
  ⟨rFold .sub "v1" "v2" "difference", true, sFold .sub "v1" "v2"⟩,
  ⟨rFold .mul "v1" "v2" "product", true, sFold .mul "v1" "v2"⟩,
  ⟨rFold .div "v1" "v2" "dividend", true, sFold .div "v1" "v2"⟩]

theorem table_rules : table.map (·.rule) = provedRules := rfl

variable (P : Prim)

theorem e_letNoop : SoundUnder P rLetNoop true (sFrame P) := by
  intro σ frag st _ hs
  exact ⟨_, _, rfl, rfl, sound_letNoop P st hs⟩

theorem e_pushDrop (n : String) : SoundUnder P (rPushDrop n) true (sTrue P) := by
  intro σ frag st _ _
  exact ⟨_, _, rfl, rfl, sound_pushDrop P st (σ n)⟩

theorem e_storeDiscard : SoundUnder P rStoreDiscard true (sTopNotMarker P) := by
  intro σ frag st _ hs
  exact ⟨_, _, rfl, rfl, sound_storeDiscard P st hs⟩

theorem e_optCreateDiscard : SoundUnder P rOptCreateDiscard false (sNoDiscard P) := by
  intro σ frag st _ hs
  obtain ⟨st', h1, h2⟩ := sound_optCreateDiscard P st hs.1 hs.2
  exact ⟨_, _, rfl, rfl, st', st, h1, rfl, h2⟩

theorem e_increment (n k : String) : SoundUnder P (rIncrement n k) true (sIncrement n k P) := by
  intro σ frag st _ hs
  exact ⟨_, _, rfl, rfl, sound_increment P hs.1 (σ n) (σ k) st hs.2.1 hs.2.2.1 hs.2.2.2.1 hs.2.2.2.2⟩

theorem e_cmpConst (oc : Opc) (op : CmpOp) (h : cmpOf oc = some op) (v : String) :
    SoundUnder P (rCmpConst oc v) true (sTrue P) := by
  intro σ frag st _ _
  exact ⟨_, _, rfl, rfl, sound_cmpConst P oc op h (σ v) st⟩

theorem e_atLine (a b : String) : SoundUnder P (rAtLine a b) true (sAtLine a P) := by
  intro σ frag st _ hs
  exact ⟨_, _, rfl, rfl, sound_atLine P (σ a) (σ b) st hs⟩

theorem e_loadThis (n : String) : SoundUnder P (rLoadThis n) true (sLoadThis n P) := by
  intro σ frag st _ hs
  obtain ⟨s, hσ⟩ := hs
  refine ⟨_, _, rfl, rfl, ?_⟩
  show exec P [⟨.load, Opd.ofVal (σ n)⟩, ⟨.setThis, .none⟩] st = exec P [⟨.loadThis, Opd.ofVal (σ n)⟩] st
  rw [hσ]
  exact sound_loadThis P s st

theorem e_pushCreateAndStore (v n : String) : SoundUnder P (rPushCreateAndStore v n) true (sTrue P) := by
  intro σ frag st ha _
  simp only [admissible, rPushCreateAndStore, List.all_cons, List.all_nil, phOK, Bool.and_true, Bool.not_false,
    Bool.true_and, Bool.not_true, Bool.false_or, Bool.true_or, Bool.and_eq_true] at ha
  obtain ⟨hv, hn⟩ := ha
  have hv' : (σ v).isMarker = false := by simpa using hv
  cases hσ : σ n with
  | plain b =>
    cases b with
    | str s =>
      refine ⟨_, _, rfl, rfl, ?_⟩
      show exec P [⟨.push, Opd.ofVal (σ v)⟩, ⟨.createAndStore, Opd.ofVal (σ n)⟩] st
        = exec P [⟨.createAndStore, .two (σ n) (σ v)⟩] st
      rw [hσ]
      exact sound_pushCreateAndStore P (σ v) s st hv'
    | _ => simp [hσ] at hn
  | _ => simp [hσ] at hn

theorem e_letConstStore (c n : String) : SoundUnder P (rLetConstStore c n) true (sFrame P) := by
  intro σ frag st _ hs
  exact ⟨_, _, rfl, rfl, sound_letConstStore P (σ c) (σ n) st hs⟩

end EgoVerif.C02
