import EgoVerif.C02.Shapes2
/-
C02 — the remaining rule shapes: increment fusion, the `let` frame around a constant store, and the
discarded-name creation.
-/
namespace EgoVerif.C02
variable (P : Prim)

/-- Load x; Push k; Add; Store x  once x is known to hold the plain value `b` -/
def unfusedCore (P : Prim) (st : MState) (name : String) (b : Base) (k : Val) : R :=
  match (match P.arith st.mode .add (.plain b) k with
      | .error e => (Except.error e : Except Err Val)
      | .ok r => checkType P st name (.plain r)) with
  | .error e => .error e
  | .ok v =>
    match setSym st.scopes name v with
    | .error e => .error e
    | .ok scs => .ok { st with scopes := scs }

/-- Increment [x, k]  once x is known to hold the plain value `b` -/
def fusedCore (P : Prim) (st : MState) (name : String) (b : Base) (k : Val) : R :=
  match (if b = .nil then (Except.error .invalidType : Except Err Val)
      else match P.incr st.mode b k with
        | .error e => .error e
        | .ok r => checkType P st name (.plain r)) with
  | .error e => .error e
  | .ok v =>
    match setSym st.scopes name v with
    | .error e => .error e
    | .ok scs => .ok { st with scopes := scs }

/-- The arithmetic fact the "Constant increment" rule rests on: incrementByteCode computes what
    Add followed by the Store boundary computes.  For the integer kinds and constant steps this is
    `C03_fused_eq_unfused` (property C03); `Concrete.lean` proves it for the driver's primitives. -/
def IncrLaw (P : Prim) : Prop :=
  ∀ (st : MState) (name : String) (b : Base) (k : Val),
    (∃ sym, getSym st.scopes name = some sym ∧ sym.val = .plain b) → k.isMarker = false →
    k.unwrap ≠ .plain .nil →
    (match P.arith st.mode .add (.plain b) k with
      | .error e => (Except.error e : Except Err Val)
      | .ok r => checkType P st name (.plain r))
    = (if b = .nil then (Except.error .invalidType : Except Err Val)
       else match P.incr st.mode b k with
         | .error e => .error e
         | .ok r => checkType P st name (.plain r))

theorem fused_eq_unfused (hP : IncrLaw P) (st : MState) (name : String) (b : Base) (k : Val)
    (h : ∃ sym, getSym st.scopes name = some sym ∧ sym.val = .plain b) (hk : k.isMarker = false)
    (hk2 : k.unwrap ≠ .plain .nil) :
    unfusedCore P st name b k = fusedCore P st name b k := by
  unfold unfusedCore fusedCore
  rw [hP st name b k h hk hk2]

theorem isMarker_plain (b : Base) : (Val.plain b).isMarker = false := rfl

theorem stepArith_add (st : MState) (b : Base) (k : Val) (S : List Val) (hk : k.isMarker = false) :
    stepArith P .add { st with stack := k :: .plain b :: S }
      = (match P.arith st.mode .add (.plain b) k with
        | .error e => .error e
        | .ok r => .ok { st with stack := .plain r :: S }) := by
  simp only [stepArith, pop, isMarker_plain, hk, Bool.or_self, Bool.false_eq_true, ↓reduceIte, push]
  rfl

theorem storeCore_plain (name : String) (hn : plainName name) (r : Base) (st : MState) :
    storeCore P name (.plain r) st
      = (match checkType P st name (.plain r) with
        | .error e => .error e
        | .ok v => match setSym st.scopes name v with
          | .error e => .error e
          | .ok scs => .ok { st with scopes := scs }) := by
  simp only [storeCore, plainName_notPrefixed hn, plainName_ne_discard hn, isMarker_plain, hn.2.1,
    Bool.false_and, Bool.false_eq_true, ↓reduceIte]
  rfl

theorem checkType_stack (st : MState) (X : List Val) (name : String) (v : Val) :
    checkType P { st with stack := X } name v = checkType P st name v := rfl

theorem pattern_increment (n k : Val) (st : MState) (hn : plainName n.asName) (hk : k.isMarker = false)
    (sym : Sym) (b : Base) (hg : getSym st.scopes n.asName = some sym) (hbv : sym.val.unwrap = .plain b) :
    exec P [⟨.load, Opd.ofVal n⟩, ⟨.push, Opd.ofVal k⟩, ⟨.add, .none⟩, ⟨.store, Opd.ofVal n⟩] st
      = unfusedCore P st n.asName b k := by
  have hne := hn.1
  have hval : Opd.ofVal n = .val n := by
    apply ofVal_ne; intro h; subst h; simp [Val.asName] at hne
  rw [exec_cons, hval]
  simp only [step1, stepLoad, nameOfArg, hne, Bool.false_eq_true, ↓reduceIte, hg, hbv]
  rw [exec_push, exec_cons]
  simp only [step1, push]
  rw [stepArith_add P st b k st.stack hk]
  unfold unfusedCore
  cases P.arith st.mode .add (.plain b) k with
  | error e => rfl
  | ok r =>
    simp only [exec_one, step1, stepStore, pop, nameOfArg]
    rw [storeCore_plain P _ hn, checkType_stack]

theorem replacement_increment (n k : Val) (st : MState)
    (sym : Sym) (b : Base) (hg : getSym st.scopes n.asName = some sym) (hbv : sym.val.unwrap = .plain b) :
    exec P [⟨.increment, .two n k⟩] st = fusedCore P st n.asName b k := by
  rw [exec_one]
  simp only [step1, stepIncrement, hg, hbv]
  unfold fusedCore
  cases b <;> simp <;> (cases P.incr st.mode _ k <;> rfl)

/-! ### 5 "Constant increment" -/
theorem sound_increment (hP : IncrLaw P) (n k : Val) (st : MState)
    (hn : plainName n.asName) (hk : k.isMarker = false) (hk2 : k.unwrap ≠ .plain .nil)
    (hb : ∀ sym, getSym st.scopes n.asName = some sym → ∃ b, sym.val = .plain b) :
    exec P [⟨.load, Opd.ofVal n⟩, ⟨.push, Opd.ofVal k⟩, ⟨.add, .none⟩, ⟨.store, Opd.ofVal n⟩] st
      = exec P [⟨.increment, .two n k⟩] st := by
  cases hg : getSym st.scopes n.asName with
  | none =>
    have hne := hn.1
    have hval : Opd.ofVal n = .val n := by
      apply ofVal_ne; intro h; subst h; simp [Val.asName] at hne
    rw [exec_cons, exec_one, hval]
    simp [step1, stepLoad, nameOfArg, hne, hg, stepIncrement]
  | some sym =>
    obtain ⟨b, hb0⟩ := hb sym hg
    have hbv : sym.val.unwrap = .plain b := by rw [hb0]; rfl
    rw [pattern_increment P n k st hn hk sym b hg hbv, replacement_increment P n k st sym b hg hbv]
    exact fused_eq_unfused P hP st n.asName b k ⟨sym, hg, hb0⟩ hk hk2

/-! ### 10 "Unnecessary stack marker for constant store" -/
theorem createCore_stack (name : String) (v : Val) (st : MState) (X : List Val) :
    createCore name v { st with stack := X }
      = (match createCore name v st with | .error e => .error e | .ok s => .ok { s with stack := X }) := by
  simp only [createCore]
  split
  · rfl
  · cases createSym st.scopes name with
    | error e => rfl
    | ok scs =>
      simp only []
      cases (if isPrefixed name = true then setConstant scs name v else setSym scs name v) <;> rfl

theorem createCore_fp (name : String) (v : Val) (st s : MState) (h : createCore name v st = .ok s) :
    s.fp = st.fp ∧ s.stack = st.stack := by
  simp only [createCore] at h
  split at h
  · cases h
  · cases hc : createSym st.scopes name with
    | error e => simp [hc] at h
    | ok scs =>
      simp only [hc] at h
      cases hs : (if isPrefixed name = true then setConstant scs name v else setSym scs name v) with
      | error e => simp [hs] at h
      | ok scs' => simp [hs] at h; subst h; exact ⟨rfl, rfl⟩

theorem sound_letConstStore (c n : Val) (st : MState) (h : st.fp ≤ st.stack.length) :
    exec P [⟨.push, Opd.ofVal mLet⟩, ⟨.push, Opd.ofVal c⟩, ⟨.createAndStore, Opd.ofVal n⟩,
            ⟨.dropToMarker, Opd.ofVal mLet⟩] st
      = exec P [⟨.push, Opd.ofVal c⟩, ⟨.createAndStore, Opd.ofVal n⟩] st := by
  rw [exec_push, exec_push, exec_push, exec_cons, exec_one, ofVal_mLet]
  have hcs : ∀ X : List Val, stepCreateAndStore (Opd.ofVal n) { st with stack := c :: X }
      = if c.isMarker then .error .functionReturnedVoid
        else createCore (nameOfArg (Opd.ofVal n)) c.unwrap { st with stack := X } := by
    intro X
    rcases ofVal_cases n with hh | hh <;> rw [hh] <;> simp [stepCreateAndStore, pop]
  simp only [step1, push]
  rw [hcs (mLet :: st.stack), hcs st.stack]
  by_cases hm : c.isMarker = true
  · simp [hm]
  · simp only [hm, Bool.false_eq_true, ↓reduceIte]
    rw [createCore_stack _ _ st (mLet :: st.stack), createCore_stack _ _ st st.stack]
    cases hcc : createCore (nameOfArg (Opd.ofVal n)) c.unwrap st with
    | error e => rfl
    | ok s =>
      have hfp := (createCore_fp _ _ _ _ hcc).1
      have : ¬ (st.stack.length + 1 ≤ s.fp) := by omega
      simp [exec_one, step1, stepDropToMarker, mLet, dropTo, this]

/-! ### 4 "Create null variable": the deleted instruction only ever adds the name "_" -/
def eraseDiscard (st : MState) : MState :=
  { st with scopes := st.scopes.map (fun sc => sc.filter (fun s => s.name != "_")) }

theorem filter_put_discard (sc : Scope) (v : Val) (ro : Bool) :
    (Scope.put sc "_" v ro).filter (fun s => s.name != "_") = sc.filter (fun s => s.name != "_") := by
  induction sc with
  | nil => simp [Scope.put]
  | cons s rest ih =>
    unfold Scope.put
    by_cases h : (s.name == "_") = true
    · have hb : (s.name != "_") = false := by simp [bne, h]
      simp [h, List.filter_cons, hb]
    · have h' : (s.name == "_") = false := by simpa using h
      simp only [h', Bool.false_eq_true, ↓reduceIte, List.filter_cons, ih]

theorem sound_optCreateDiscard (st : MState) (hs : st.scopes ≠ []) (hg : getSym st.scopes "_" = none) :
    ∃ st', exec P [⟨.symbolOptCreate, Opd.ofVal (vStr "_")⟩] st = .ok st' ∧ eraseDiscard st' = eraseDiscard st := by
  rw [exec_one, ofVal_str]
  cases hsc : st.scopes with
  | nil => exact absurd hsc hs
  | cons sc more =>
    have hf : Scope.find? sc "_" = none := by
      simp only [hsc, getSym] at hg
      cases hh : Scope.find? sc "_" with
      | none => rfl
      | some s => simp [hh] at hg
    have he : ("_" : String).isEmpty = false := by decide
    refine ⟨{ st with scopes := Scope.put sc "_" (.plain .undef) false :: more }, ?_, ?_⟩
    · simp [step1, stepSymbolOptCreate, nameOfArg, vStr, Val.asName, isConstant, hg, hsc, hf, createSym, he]
      simp [getSym, hf] at hg ⊢
      simp [hsc, getSym, hf] at hg
      simp [hg]
    · simp [eraseDiscard, hsc, filter_put_discard]

end EgoVerif.C02
