import EgoVerif.Common.Drv
import EgoVerif.C02.Concrete
import EgoVerif.C02.Patch
/-
line protocol (core Lean only):
  exec <mode> <fp> <stack> <scopes> <instrs>   → ok st=… sc=… ln=… th=… wr=…  |  err <class>  |  unmodelled
  inst <k> <bindings> <frag>                   → the instantiated replacement of provedRules[k]
  fold <add|sub|mul|div> <a> <b>               → some <val> | none        (tryConstArith)
values   i:<n> ci:<n> s:<hex> cs:<hex> b:<0|1> cb:<0|1> n u m:<hex> r:<id>
operand  -  v=<val>  1=<val>  2=<val>,<val>          instr  <opcode>/<operand>   list joined by ';'
stack    values joined by '|' (top first), '-' when empty
scopes   innermost first, joined by '/';  a scope is '-' or  <hexname>~<val>~<ro> joined by ','
-/
namespace EgoVerif.C02

def encVal : Val → String
  | .plain (.int n) => s!"i:{n}"
  | .const (.int n) => s!"ci:{n}"
  | .plain (.str s) => "s:" ++ hexOfString s
  | .const (.str s) => "cs:" ++ hexOfString s
  | .plain (.bool b) => if b then "b:1" else "b:0"
  | .const (.bool b) => if b then "cb:1" else "cb:0"
  | .plain .nil => "n"
  | .plain .undef => "u"
  | .marker l => "m:" ++ hexOfString l
  | .ref id => s!"r:{id}"
  | .const _ => "x"

def decVal (s : String) : Option Val :=
  match s.splitOn ":" with
  | ["n"] => some (.plain .nil)
  | ["u"] => some (.plain .undef)
  | ["i", n] => n.toInt?.map fun k => .plain (.int k)
  | ["ci", n] => n.toInt?.map fun k => .const (.int k)
  | ["s", h] => (stringOfHex h).map fun x => .plain (.str x)
  | ["cs", h] => (stringOfHex h).map fun x => .const (.str x)
  | ["b", b] => some (.plain (.bool (b == "1")))
  | ["cb", b] => some (.const (.bool (b == "1")))
  | ["m", h] => (stringOfHex h).map .marker
  | ["r", n] => n.toNat?.map .ref
  | _ => none

def encOpd : Opd → String
  | .none => "-"
  | .val v => "v=" ++ encVal v
  | .one a => "1=" ++ encVal a
  | .two a b => "2=" ++ encVal a ++ "," ++ encVal b

def decOpd (s : String) : Option Opd :=
  if s == "-" then some .none
  else match s.splitOn "=" with
    | ["v", v] => (decVal v).map .val
    | ["1", v] => (decVal v).map .one
    | ["2", vs] => match vs.splitOn "," with
      | [a, b] => do let a ← decVal a; let b ← decVal b; pure (.two a b)
      | _ => none
    | _ => none

def opcNames : List (String × Opc) := [("push", .push), ("drop", .drop), ("dropToMarker", .dropToMarker), ("load", .load),
  ("store", .store), ("storeAlways", .storeAlways), ("createAndStore", .createAndStore), ("symbolOptCreate", .symbolOptCreate),
  ("symbolCreate", .symbolCreate), ("add", .add), ("sub", .sub), ("mul", .mul), ("div", .div), ("lessThan", .lessThan),
  ("lessThanOrEqual", .lessThanOrEqual), ("greaterThan", .greaterThan), ("greaterThanOrEqual", .greaterThanOrEqual),
  ("equal", .equal), ("notEqual", .notEqual), ("atLine", .atLine), ("popScope", .popScope), ("loadThis", .loadThis),
  ("setThis", .setThis), ("storeIndex", .storeIndex), ("increment", .increment)]

def encOpc (o : Opc) : String := match opcNames.find? (fun p => p.2 == o) with | some p => p.1 | none => "?"

def decInstr (s : String) : Option Instr :=
  match s.splitOn "/" with
  | [o, a] => do let op ← opcNames.lookup o; let arg ← decOpd a; pure ⟨op, arg⟩
  | _ => none

def decList {α} (f : String → Option α) (sep : String) (s : String) : Option (List α) :=
  if s == "-" then some [] else (s.splitOn sep).mapM f

def encInstrs (l : List Instr) : String :=
  if l.isEmpty then "-" else ";".intercalate (l.map fun i => encOpc i.op ++ "/" ++ encOpd i.arg)

def decSym (s : String) : Option Sym :=
  match s.splitOn "~" with
  | [h, v, ro] => do let n ← stringOfHex h; let v ← decVal v; pure ⟨n, v, ro == "1"⟩
  | _ => none

def decMode : String → Option Mode
  | "dynamic" => some .dynamic | "relaxed" => some .relaxed | "strict" => some .strict | _ => none

def insertSorted (x : String) : List String → List String
  | [] => [x]
  | y :: ys => if x < y then x :: y :: ys else y :: insertSorted x ys

def sortStrings (l : List String) : List String := l.foldr insertSorted []

def joinOr (sep : String) (l : List String) : String := if l.isEmpty then "-" else sep.intercalate l

def encScope (sc : Scope) : String :=
  joinOr "," (sortStrings (sc.map fun s => hexOfString s.name ++ "~" ++ encVal s.val ++ "~" ++ (if s.ro then "1" else "0")))

/-- final contents of the containers written by StoreIndex: the latest write per (dest, index) wins -/
def encWrites (ws : List (Val × Val × Val)) : String :=
  let ids := (ws.filterMap fun w => match w.1 with | .ref id => some id | _ => none).eraseDups
  let idsSorted := (List.range ((ids.foldl max 0) + 1)).filter ids.contains
  joinOr "," (idsSorted.map fun id =>
    let mine := ws.filter fun w => w.1 == .ref id
    let keys := (mine.map fun w => w.2.1.unwrap).eraseDups
    let ents := keys.filterMap fun k => (mine.find? fun w => w.2.1.unwrap == k).map fun w => encVal k ++ "=" ++ encVal w.2.2.unwrap
    s!"r{id}\{" ++ ",".intercalate (sortStrings ents) ++ "}")

def encErr : Err → String
  | .stackUnderflow => "err stackUnderflow" | .functionReturnedVoid => "err functionReturnedVoid"
  | .invalidIdentifier => "err invalidIdentifier" | .unknownIdentifier => "err unknownIdentifier"
  | .unknownSymbol => "err unknownSymbol" | .readOnly => "err readOnly" | .readOnlyValue => "err readOnlyValue"
  | .symbolExists => "err symbolExists" | .invalidSymbolName => "err invalidSymbolName"
  | .invalidOperand => "err invalidOperand" | .invalidType => "err invalidType" | .popRoot => "err popRoot"
  | .typeMismatch => "err typeMismatch" | .invalidVarType => "err invalidVarType" | .divideByZero => "err divideByZero"
  | .other _ => "unmodelled"

def encState (st : MState) : String :=
  "ok st=" ++ joinOr "|" (st.stack.map encVal) ++ " sc=" ++ "/".intercalate (st.scopes.map encScope)
    ++ s!" ln={st.line} th=" ++ joinOr "," (st.this.reverse.map fun p => hexOfString p.1 ++ "~" ++ encVal p.2)
    ++ " wr=" ++ encWrites st.writes

def arOps : List (String × ArOp) := [("add", .add), ("sub", .sub), ("mul", .mul), ("div", .div)]
def ocOfAr : ArOp → Opc | .add => .add | .sub => .sub | .mul => .mul | .div => .div

def decBind (s : String) : Option (List (String × Val)) :=
  decList (fun kv => match kv.splitOn "=" with
    | [k, v] => do let k ← stringOfHex k; let v ← decVal v; pure (k, v)
    | _ => none) "," s

def line (l : String) : String :=
  match fields l with
  | ["exec", m, fp, stack, scopes, instrs] =>
    match decMode m, fp.toNat?, decList decVal "|" stack, (scopes.splitOn "/").mapM (decList decSym ","),
          decList decInstr ";" instrs with
    | some m, some fp, some stack, some scs, some ins =>
      let st : MState := { stack := stack, fp := fp, scopes := scs, line := 0, this := [], gen := 0, writes := [], mode := m }
      match exec cPrim ins st with
      | .ok s => encState s
      | .error e => encErr e
    | _, _, _, _, _ => "bad-input"
  | ["inst", k, bind, frag] =>
    match k.toNat?, decBind bind, (if frag == "-" then some (Val.plain .nil) else decVal frag) with
    | some k, some b, some frag =>
      match provedRules[k]? with
      | some r =>
        let σ : Binding := fun n => (b.lookup n).getD (.plain .nil)
        match r.instReplacement σ frag with
        | some l => encInstrs l
        | none => "no-instance"
      | none => "bad-rule"
    | _, _, _ => "bad-input"
  | ["fold", op, a, b] =>
    match arOps.lookup op, decVal a, decVal b with
    | some op, some a, some b =>
      match tryConstArith op a b with
      | some r => "some " ++ encVal (.plain r)
      | none => "none"
    | _, _, _ => "bad-input"
  | _ => "bad-op"

def drv : Drv := Drv.pure line

end EgoVerif.C02
