import EgoVerif.C02.PatchFwd
/- C02 — simulation, patched → original, and the two directions together. -/
namespace EgoVerif.C02

section
variable (P : Prim) (Q : List Instr) (s d : Nat) (ins : List Instr)
variable (hd : 0 < d) (hlen : s + d ≤ Q.length)
variable (hW : ∀ i ∈ (Q.drop s).take d, i.op.isControl = false) (hI : ∀ i ∈ ins, i.op.isControl = false)
variable (heq : ∀ st, exec P ((Q.drop s).take d) st = exec P ins st)
variable (hg : guardOK Q s d = true)

include hd hlen hg in
/-- one dispatched instruction of the patched program at a translated address outside the window,
    given the claim for smaller fuel -/
theorem back_step (k : Nat)
    (ih : ∀ m, m ≤ k → ∀ (pc : Nat) (st : MState) (r : R), (pc ≤ s ∨ s + d ≤ pc) →
      run P (patch Q s d ins) m (mp s d ins.length pc) st = some r → ∃ f', run P Q f' pc st = some r)
    (pc : Nat) (st : MState) (r : R) (hpc : pc < s ∨ s + d ≤ pc)
    (h : run P (patch Q s d ins) (k + 1) (mp s d ins.length pc) st = some r) : ∃ f', run P Q f' pc st = some r := by
  have hat := patch_at Q s d ins hd hlen pc hpc
  unfold run at h
  cases hi : Q[pc]? with
  | none =>
    simp only [hi, Option.map] at hat
    simp only [hat] at h
    exact ⟨1, by unfold run; simp only [hi]; exact h⟩
  | some i =>
    simp only [hi, Option.map] at hat
    have hgi := guard_at Q s d hg pc i hi
    have hnf := next_fixup P s d ins.length hd i pc st hgi hpc
    simp only [hat, hnf] at h
    cases hn : next P i pc st with
    | halt r' =>
      simp only [hn, Next.map] at h
      exact ⟨1, by unfold run; simp only [hi, hn]; exact h⟩
    | goto p st2 =>
      simp only [hn, Next.map] at h
      have hp := next_outside P s d i pc st p st2 hgi hpc hn
      obtain ⟨f'', hf''⟩ := ih k (Nat.le_refl _) p st2 r hp h
      exact ⟨f'' + 1, by unfold run; simp only [hi, hn]; exact hf''⟩

include hd hlen hW hI heq hg in
/-- patched → original -/
theorem patch_backward : ∀ (f pc : Nat) (st : MState) (r : R), (pc ≤ s ∨ s + d ≤ pc) →
    run P (patch Q s d ins) f (mp s d ins.length pc) st = some r → ∃ f', run P Q f' pc st = some r := by
  intro f
  induction f using Nat.strongRecOn with
  | _ f ih =>
    intro pc st r hout h
    cases f with
    | zero => simp [run] at h
    | succ k =>
      have ih' : ∀ m, m ≤ k → ∀ (pc : Nat) (st : MState) (r : R), (pc ≤ s ∨ s + d ≤ pc) →
          run P (patch Q s d ins) m (mp s d ins.length pc) st = some r → ∃ f', run P Q f' pc st = some r :=
        fun m hm => ih m (by omega)
      by_cases hps : pc = s
      · subst hps
        rw [mp_start pc d ins hd] at h
        have hlenW : ((Q.drop pc).take d).length = d := by simp; omega
        rcases seg_forward P _ ins hI pc (k + 1) st r (ins_segAt Q pc d ins hlen hI) h with ⟨e, he, hr⟩ | ⟨st', f', he, hf, hr⟩
        · subst hr
          rw [← heq] at he
          exact ⟨_, (seg_backward P Q _ hW pc st (window_segAt Q pc d hlen)).1 e he⟩
        · rw [← heq] at he
          have hr' : run P (patch Q pc d ins) f' (mp pc d ins.length (pc + d)) st' = some r := by
            rw [mp_end]; exact hr
          have hcont : ∃ f'', run P Q f'' (pc + d) st' = some r := by
            by_cases hn0 : ins.length = 0
            · -- the replacement is empty: the same fuel, but a dispatched instruction behind the window
              have hf' : f' = k + 1 := by omega
              rw [hf'] at hr'
              exact back_step P Q pc d ins hd hlen hg k ih' (pc + d) st' r (Or.inr (Nat.le_refl _)) hr'
            · exact ih f' (by omega) (pc + d) st' r (Or.inr (Nat.le_refl _)) hr'
          obtain ⟨f'', hf''⟩ := hcont
          have := (seg_backward P Q _ hW pc st (window_segAt Q pc d hlen)).2 st' f'' r he (by rw [hlenW]; exact hf'')
          exact ⟨_, this⟩
      · exact back_step P Q s d ins hd hlen hg k ih' pc st r (by omega) h

def Terminates (P : Prim) (prog : List Instr) (st : MState) (r : R) : Prop := ∃ f, run P prog f 0 st = some r

include hd hlen hW hI heq hg in
/-- **Patch preserves the run.** -/
theorem patch_preserves (st : MState) (r : R) :
    Terminates P Q st r ↔ Terminates P (patch Q s d ins) st r := by
  have h0 : mp s d ins.length 0 = 0 := by
    have : 0 < s + d := by omega
    simp [mp, this]
  constructor
  · rintro ⟨f, hf⟩
    have := patch_forward P Q s d ins hd hlen hW hI heq hg f 0 st r (Or.inl (Nat.zero_le _)) hf
    rw [h0] at this
    exact this
  · rintro ⟨f, hf⟩
    rw [← h0] at hf
    exact patch_backward P Q s d ins hd hlen hW hI heq hg f 0 st r (Or.inl (Nat.zero_le _)) hf
end
end EgoVerif.C02
