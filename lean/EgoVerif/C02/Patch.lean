import EgoVerif.C02.PatchSim
/-
C02 — `ByteCode.Patch` under the branch-target guard of `ByteCode.optimize` preserves the run.

Definitions (Run.lean, PatchDefs.lean): `run` executes a program with Branch / BranchTrue / BranchFalse / Stop,
`patch prog start del insert` is ByteCode.Patch including its fix-up of branch destinations behind `start`,
`guardOK prog start del` is the optimizer's test `branchTargets[idx+offset]` for offset = 0 … len(Pattern)-1.
-/
namespace EgoVerif.C02

/-- **Patch preserves the run.**  If the window [start, start+del) of `prog` is straight-line code that is
    equivalent (same outcome from every state) to the straight-line `insert`, and no branch of the program
    targets an address of the window, then the patched program terminates with exactly the same result
    (final state or error class) from every initial state — and fails to terminate exactly when the original does. -/
theorem C02_patch_preserves (P : Prim) (prog : List Instr) (start del : Nat) (insert : List Instr)
    (hdel : 0 < del) (hlen : start + del ≤ prog.length)
    (hW : ∀ i ∈ (prog.drop start).take del, i.op.isControl = false) (hI : ∀ i ∈ insert, i.op.isControl = false)
    (heq : ∀ st, exec P ((prog.drop start).take del) st = exec P insert st)
    (hg : guardOK prog start del = true) (st : MState) (r : R) :
    Terminates P prog st r ↔ Terminates P (patch prog start del insert) st r :=
  patch_preserves P prog start del insert hdel hlen hW hI heq hg st r

/-- every rule of the proved table with an exact conclusion can be spliced in: pattern and replacement are
    straight-line code (no rule mentions a control opcode) -/
theorem C02_rules_straight_line :
    provedRules.all (fun r => (r.pattern ++ r.replacement).all (fun i => !i.op.isControl)) = true := by decide

end EgoVerif.C02
