/-
C02 — model of the peephole optimizer's world (core Lean only).

Mirrors
  * the instruction handlers of the opcodes that occur in the rule table of
    internal/language/bytecode/optimizations.go:
      pushByteCode, dropByteCode, dropToMarkerByteCode (stack.go), loadByteCode (load.go),
      storeByteCode, storeAlwaysByteCode (store.go), createAndStoreByteCode, symbolCreateByteCode,
      symbolCreateIfByteCode, popScopeByteCode (symbols.go), add/sub/mul/divByteCode,
      incrementByteCode (math.go), the six comparison handlers + getComparisonTerms (equal.go …),
      atLineByteCode (flow.go), setThisByteCode, loadThisByteCode (this.go), storeIndexByteCode (structs.go)
    and symbols.Create / Set / SetAlways / SetConstant / IsConstant / Get;
  * the rule language of optimizer.go (`optimization`, `placeholder`, `empty`), the matcher/instantiator of
    `ByteCode.optimize`, its branch-target guard, and `ByteCode.Patch`.
Values: int (Go `int`), string, bool, nil, UndefinedValue, each plain or wrapped as a compile-time constant
(data.Immutable), and StackMarkers.  Arithmetic, comparison, type coercion at the Store boundary and container
stores are PARAMETERS (`Prim`): the rules only move operands between the instruction and the stack, so their
soundness must not (and does not) depend on what those primitives compute.
Not modelled: function boundaries inside the scope chain (all scopes visible), the global cache and slots
(covered by the whole-program harness), goroutines, the profiler, __line/__module publication by AtLine.
-/
namespace EgoVerif.C02

inductive Base where
  | int (n : Int) | str (s : String) | bool (b : Bool) | nil | undef
  deriving DecidableEq, Repr, Inhabited

/-- a run-time value as it sits on the stack / in an operand -/
inductive Val where
  | plain (b : Base)
  | const (b : Base)          -- data.Immutable{Value: b}
  | marker (l : String)       -- StackMarker{label: l}
  | ref (id : Nat)            -- a container (map / array / struct pointer): identity only
  deriving DecidableEq, Repr, Inhabited

/-- data.UnwrapConstant / the unwrapping done by Context.Pop -/
def Val.unwrap : Val → Val
  | .const b => .plain b
  | v => v

def Val.isMarker : Val → Bool
  | .marker _ => true
  | _ => false

def Val.isConst : Val → Bool
  | .const _ => true
  | _ => false

/-- data.String(operand) as used for symbol names -/
def Val.asName : Val → String
  | .plain (.str s) | .const (.str s) => s
  | .plain (.int n) | .const (.int n) => toString n
  | .plain (.bool b) | .const (.bool b) => toString b
  | _ => ""

/-- data.Int(operand) for count operands (Drop, PopScope, AtLine) -/
def Val.asInt? : Val → Option Int
  | .plain (.int n) | .const (.int n) => some n
  | _ => none

inductive Opc where
  | push | drop | dropToMarker | load | store | storeAlways | createAndStore | symbolOptCreate | symbolCreate
  | add | sub | mul | div
  | lessThan | lessThanOrEqual | greaterThan | greaterThanOrEqual | equal | notEqual
  | atLine | popScope | loadThis | setThis | storeIndex | increment
  | branch | branchTrue | branchFalse | stop          -- control flow (C02_patch_preserves)
  deriving DecidableEq, Repr, Inhabited

/-- `i.Operation > BranchInstructions` in optimizer.go / Patch -/
def Opc.isBranch : Opc → Bool
  | .branch | .branchTrue | .branchFalse => true
  | _ => false

/-- an instruction operand (`any` in Go) -/
inductive Opd where
  | none                       -- nil
  | val (v : Val)
  | one (a : Val)              -- []any{a}
  | two (a b : Val)            -- []any{a, b}
  deriving DecidableEq, Repr, Inhabited

structure Instr where
  op : Opc
  arg : Opd
  deriving DecidableEq, Repr, Inhabited

inductive Mode where
  | dynamic | relaxed | strict
  deriving DecidableEq, Repr, Inhabited

inductive Err where
  | stackUnderflow | functionReturnedVoid | invalidIdentifier | unknownIdentifier | unknownSymbol
  | readOnly | readOnlyValue | symbolExists | invalidSymbolName | invalidOperand | invalidType
  | popRoot | typeMismatch | invalidVarType | divideByZero | other (n : Nat)
  deriving DecidableEq, Repr, Inhabited

inductive ArOp where | add | sub | mul | div deriving DecidableEq, Repr
inductive CmpOp where | lt | le | gt | ge | eq | ne deriving DecidableEq, Repr

/-- the value-level primitives the rules never look into -/
structure Prim where
  /-- add/sub/mul/divByteCode after getDiadicValues: operands still carry their const wrapper -/
  arith : Mode → ArOp → Val → Val → Except Err Base
  /-- the comparison handlers after getComparisonTerms -/
  cmp : Mode → CmpOp → Val → Val → Except Err Bool
  /-- Context.checkTypeCore when the value's Go type differs from the existing value's:
      `coerce mode existing value valueIsConst` -/
  coerce : Mode → Base → Base → Bool → Except Err Base
  /-- incrementByteCode's Normalize + add on (current value, increment operand) -/
  incr : Mode → Base → Val → Except Err Base
  /-- the container store of storeIndexByteCode: may reject (dest, index, value) -/
  storeIdx : Mode → Val → Val → Val → Option Err

structure Sym where
  name : String
  val : Val
  ro : Bool                   -- SymbolAttribute.Readonly
  deriving DecidableEq, Repr

abbrev Scope := List Sym

structure MState where
  stack : List Val            -- top first
  fp : Nat                    -- framePointer: entries of `stack` (counted from the bottom) below the frame
  scopes : List Scope         -- innermost first; the last one is the root table
  line : Int
  this : List (String × Val)  -- receiver stack
  gen : Nat                   -- data.GenerateName counter
  writes : List (Val × Val × Val)   -- container stores performed, latest first: (dest, index, value)
  mode : Mode
  deriving Repr

/-! ## symbol tables (symbols/get.go, set.go, create.go) -/

def Scope.find? (sc : Scope) (n : String) : Option Sym := List.find? (fun s => s.name == n) sc

/-- SymbolTable.Get through the scope chain -/
def getSym : List Scope → String → Option Sym
  | [], _ => none
  | sc :: rest, n => match sc.find? n with
    | some s => some s
    | none => getSym rest n

/-- SymbolTable.IsConstant: the Readonly attribute of the nearest definition -/
def isConstant (scs : List Scope) (n : String) : Bool :=
  match getSym scs n with
  | some s => s.ro
  | none => false

def Scope.put (sc : Scope) (n : String) (v : Val) (ro : Bool) : Scope :=
  match sc with
  | [] => [⟨n, v, ro⟩]
  | s :: rest => if s.name == n then ⟨n, v, ro⟩ :: rest else s :: Scope.put rest n v ro

/-- strings.HasPrefix(name, defs.ReadonlyVariablePrefix) -/
def hasPrefix (n : String) : Bool :=
  match n.toList with
  | c :: _ => c == '_'
  | [] => false
def isPrefixed (n : String) : Bool := n.length > 1 && hasPrefix n

/-- SymbolTable.Create in the innermost scope -/
def createSym (scs : List Scope) (n : String) : Except Err (List Scope) :=
  match scs with
  | [] => .error .popRoot
  | sc :: rest =>
    if n.isEmpty then .error .invalidSymbolName
    else if (sc.find? n).isSome then .error .symbolExists
    else .ok (sc.put n (.plain .undef) false :: rest)

/-- SymbolTable.Set: writes the nearest definition -/
def setSym : List Scope → String → Val → Except Err (List Scope)
  | [], _, _ => .error .unknownSymbol
  | sc :: rest, n, v =>
    match sc.find? n with
    | some s =>
      if s.ro && s.val != .plain .undef then .error .readOnlyValue
      else .ok (sc.put n v (s.ro || hasPrefix n) :: rest)
    | none => do
      let rest' ← setSym rest n v
      pure (sc :: rest')

/-- SymbolTable.SetAlways: innermost scope, creating the name when absent -/
def setAlways (scs : List Scope) (n : String) (v : Val) : List Scope :=
  match scs with
  | [] => []
  | sc :: rest =>
    let ro := match sc.find? n with
      | some s => s.ro || hasPrefix n
      | none => hasPrefix n
    sc.put n v ro :: rest

/-- SymbolTable.SetConstant in the innermost scope -/
def setConstant (scs : List Scope) (n : String) (v : Val) : Except Err (List Scope) :=
  match scs with
  | [] => .error .popRoot
  | sc :: rest =>
    match sc.find? n with
    | some s => if s.ro then .error .readOnlyValue else .ok (sc.put n (.const (match v.unwrap with | .plain b => b | _ => .nil)) s.ro :: rest)
    | none => .ok (sc.put n (.const (match v.unwrap with | .plain b => b | _ => .nil)) true :: rest)

end EgoVerif.C02
