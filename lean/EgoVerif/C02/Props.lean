import EgoVerif.C02.Table
import EgoVerif.C02.Patch
import EgoVerif.C02.Concrete
/-
C02 — property theorems.

  C02_rule_sound            every rule of the proved table: pattern ≈ replacement for EVERY placeholder binding the
                            matcher can produce, EVERY machine state and EVERY value-level primitive, under the rule's
                            stated side condition (`Entry.side`; `sTrue` for 9 of the 23 rules)
  C02_rule_sound_of_mem     the form the GENERATED obligation uses: a rule that is literally in `provedRules` is sound
  C02_*_counterexample      the side conditions are needed: concrete states where pattern and replacement differ
  C02_patch_preserves       (Patch.lean) splicing an equivalent replacement into a program whose branch targets avoid
                            the window — the guard of optimizer.go — preserves the result of the whole run
  C02_guard_needed_counterexample  without the guard the run changes
  C02_fold_sound, C02_incr_law_concrete  (Concrete.lean) the optimizer's fast constant arithmetic and the fused
                            increment agree with the instruction semantics on the driver's int/string primitives
-/
namespace EgoVerif.C02
variable (P : Prim)

theorem e_popScope2 (a b c : String) (hab : a ≠ b) : SoundUnder P (rPopScope2 a b c) true (sPopScope a b P) := by
  intro σ frag st _ hs
  have hreg : regCount σ 1 (rPopScope2 a b c).pattern [] = cntOf (σ a) + cntOf (σ b) := by
    have : ([a].contains b) = false := by simp [Ne.symm hab]
    have hba : ¬ (b = a) := fun h => hab h.symm
    simp [rPopScope2, regCount, hba]
  refine ⟨_, _, rfl, rfl, ?_⟩
  show exec P [⟨.popScope, Opd.ofVal (σ a)⟩, ⟨.popScope, Opd.ofVal (σ b)⟩] st
    = exec P [⟨.popScope, Opd.ofVal (.plain (.int (regCount σ 1 (rPopScope2 a b c).pattern [])))⟩] st
  rw [hreg]
  exact sound_popScope2 P (σ a) (σ b) st hs.1 hs.2

theorem e_createStore (n : String) : SoundUnder P (rCreateStore n) true (sCreateStore n P) := by
  intro σ frag st _ hs
  obtain ⟨hn, v, rest, hst, hv⟩ := hs
  exact ⟨_, _, rfl, rfl, sound_createStore P (σ n) st v rest hn hst hv⟩

theorem e_pushStoreIndex (v : String) : SoundUnder P (rPushStoreIndex v) true (sStoreIndex v P) := by
  intro σ frag st _ hs
  exact ⟨_, _, rfl, rfl, sound_pushStoreIndex P (σ v) st hs⟩

theorem e_pushStoreAlways (v n : String) : SoundUnder P (rPushStoreAlways v n) true (sStoreAlways v P) := by
  intro σ frag st ha hs
  simp only [admissible, rPushStoreAlways, List.all_cons, List.all_nil, phOK, Bool.and_true, Bool.not_false,
    Bool.true_and, Bool.not_true, Bool.false_or, Bool.true_or] at ha
  cases hσ : σ n with
  | plain b =>
    cases b with
    | str s =>
      refine ⟨_, _, rfl, rfl, ?_⟩
      show exec P [⟨.push, Opd.ofVal (σ v)⟩, ⟨.storeAlways, Opd.ofVal (σ n)⟩] st
        = exec P [⟨.storeAlways, .two (σ n) (σ v)⟩] st
      rw [hσ]
      exact sound_pushStoreAlways P (σ v) s st hs.1 hs.2
    | _ => simp [hσ] at ha
  | _ => simp [hσ] at ha

theorem e_fold (oc : Opc) (op : ArOp) (h : arOf oc = some op) (a b r : String) :
    SoundUnder P (rFold oc a b r) true (sFold op a b P) := by
  intro σ frag st _ hs
  obtain ⟨ha, hb, res, hres, hfrag⟩ := hs
  refine ⟨_, _, rfl, rfl, ?_⟩
  show exec P [⟨.push, Opd.ofVal (σ a)⟩, ⟨.push, Opd.ofVal (σ b)⟩, ⟨oc, .none⟩] st = exec P [⟨.push, Opd.ofVal frag⟩] st
  rw [hfrag]
  exact sound_fold P oc op h (σ a) (σ b) res st ⟨ha, hb⟩ hres

/-- **Rule soundness.**  For every entry of the proved table, every value-level primitive `P`, every binding `σ`
    the matcher can produce (`admissible`), every fragment value and every state satisfying the entry's side
    condition: the instantiated pattern and the instantiated replacement have the same outcome. -/
theorem C02_rule_sound : ∀ e ∈ table, SoundUnder P e.rule e.exact (e.side P) := by
  intro e he
  simp only [table, List.mem_cons, List.mem_nil_iff, or_false] at he
  rcases he with rfl | rfl | rfl | rfl | rfl | rfl | rfl | rfl | rfl | rfl | rfl | rfl | rfl | rfl | rfl | rfl |
    rfl | rfl | rfl | rfl | rfl | rfl | rfl
  · exact e_letNoop P
  · exact e_pushDrop P ""
  · exact e_storeDiscard P
  · exact e_optCreateDiscard P
  · exact e_increment P "name" "increment"
  · exact e_cmpConst P .lessThan .lt rfl "value"
  · exact e_cmpConst P .lessThanOrEqual .le rfl "value"
  · exact e_cmpConst P .greaterThan .gt rfl "value"
  · exact e_cmpConst P .greaterThanOrEqual .ge rfl "value"
  · exact e_cmpConst P .equal .eq rfl "value"
  · exact e_cmpConst P .notEqual .ne rfl "value"
  · exact e_atLine P "line1" "line2"
  · exact e_loadThis P "name"
  · exact e_pushCreateAndStore P "value" "name"
  · exact e_letConstStore P "constant" "name"
  · exact e_popScope2 P "count1" "count2" "count" (by decide)
  · exact e_createStore P "symbolName"
  · exact e_pushStoreIndex P "value"
  · exact e_pushStoreAlways P "value" "name"
  · exact e_fold P .add .add rfl "v1" "v2" "sum"
  · exact e_fold P .sub .sub rfl "v1" "v2" "difference"
  · exact e_fold P .mul .mul rfl "v1" "v2" "product"
  · exact e_fold P .div .div rfl "v1" "v2" "dividend"

/-- what the generated obligation uses: a rule extracted from optimizations.go that is literally one of the
    proved rules is sound under the side condition recorded for it -/
theorem C02_rule_sound_of_mem (r : Rule) (h : provedRules.contains r = true) :
    ∃ e ∈ table, e.rule = r ∧ SoundUnder P e.rule e.exact (e.side P) := by
  have hm : r ∈ table.map (·.rule) := by
    rw [table_rules]; simpa using h
  obtain ⟨e, he, rfl⟩ := List.mem_map.mp hm
  exact ⟨e, he, rfl, C02_rule_sound P e he⟩

/-! ## the side conditions are needed (concrete witnesses, on the driver's primitives) -/

def st0 : MState :=
  { stack := [], fp := 0, scopes := [[]], line := 0, this := [], gen := 0, writes := [], mode := .dynamic }

/-- "Store to null variable" with a StackMarker on top (a call that returned nothing): Store reports
    ErrFunctionReturnedVoid, the replacement Drop silently succeeds -/
theorem C02_storeDiscard_counterexample :
    exec cPrim [⟨.store, Opd.ofVal (vStr "_")⟩] { st0 with stack := [.marker "call"] } = .error .functionReturnedVoid ∧
    exec cPrim [⟨.drop, .none⟩] { st0 with stack := [.marker "call"] } = .ok st0 := by
  constructor <;> rfl

/-- "Push and Storeindex" with a pushed nil: the folded `StoreIndex nil` takes its index from the stack instead -/
theorem C02_storeIndex_nil_counterexample :
    exec cPrim [⟨.push, Opd.ofVal (.plain .nil)⟩, ⟨.storeIndex, .none⟩] { st0 with stack := [.ref 0, vInt 7, vStr "k"] }
      = .ok { st0 with stack := [.ref 0, vStr "k"], writes := [(.ref 0, .plain .nil, vInt 7)] } ∧
    exec cPrim [⟨.storeIndex, Opd.ofVal (.plain .nil)⟩] { st0 with stack := [.ref 0, vInt 7, vStr "k"] }
      = .error .invalidType := by
  constructor <;> rfl

/-- "Constant storeAlways" with a constant-wrapped value: the pattern stores the unwrapped value, the
    replacement stores the data.Immutable wrapper -/
theorem C02_storeAlways_const_counterexample :
    exec cPrim [⟨.push, Opd.ofVal (.const (.int 5))⟩, ⟨.storeAlways, Opd.ofVal (vStr "x")⟩] st0
      = .ok { st0 with scopes := [[⟨"x", .plain (.int 5), false⟩]] } ∧
    exec cPrim [⟨.storeAlways, .two (vStr "x") (.const (.int 5))⟩] st0
      = .ok { st0 with scopes := [[⟨"x", .const (.int 5), false⟩]] } := by
  constructor <;> rfl

/-- "Load followed by SetThis" when the name operand is not a Go string (the rule has no MustBeString):
    Load looks up the variable called "5", LoadThis takes the int 5 itself as the receiver -/
theorem C02_loadThis_nonstring_counterexample :
    exec cPrim [⟨.load, Opd.ofVal (vInt 5)⟩, ⟨.setThis, .none⟩] st0 = .error .unknownIdentifier ∧
    (exec cPrim [⟨.loadThis, Opd.ofVal (vInt 5)⟩] st0).map (·.stack) = .ok [vInt 5] := by
  constructor <;> rfl

/-- the branch-target guard is needed: a branch into the window of "Write constant to null variable"
    (`guardOK` is false) — the original run stops with a stack underflow, the patched program loops forever -/
theorem C02_guard_needed_counterexample :
    let prog : List Instr := [⟨.branch, .val (vInt 2)⟩, ⟨.push, .val (vInt 1)⟩, ⟨.drop, .val (vInt 1)⟩, ⟨.stop, .none⟩]
    guardOK prog 1 2 = false ∧
    run cPrim prog 5 0 st0 = some (.error .stackUnderflow) ∧
    patch prog 1 2 [] = [⟨.branch, .val (vInt 0)⟩, ⟨.stop, .none⟩] ∧
    ∀ f, run cPrim (patch prog 1 2 []) f 0 st0 = none := by
  refine ⟨by decide, rfl, by decide, ?_⟩
  intro f
  have hp : patch [⟨.branch, .val (vInt 2)⟩, ⟨.push, .val (vInt 1)⟩, ⟨.drop, .val (vInt 1)⟩, ⟨.stop, .none⟩] 1 2 []
      = [⟨.branch, .val (vInt 0)⟩, ⟨.stop, .none⟩] := by decide
  simp only [hp]
  induction f with
  | zero => rfl
  | succ n ih => simpa [run, next, target, vInt] using ih

/-! ## the hypotheses are satisfiable (non-vacuity) -/

example : admissible (rPushCreateAndStore "value" "name") (fun n => if n = "name" then vStr "x" else vInt 5) = true := by decide
example : sFrame cPrim (fun _ => .plain .nil) (.plain .nil) st0 := Nat.le_refl 0
example : sTopNotMarker cPrim (fun _ => .plain .nil) (.plain .nil) { st0 with stack := [vInt 1] } := by
  intro v rest h; cases h; rfl
example : sNoDiscard cPrim (fun _ => .plain .nil) (.plain .nil) st0 := ⟨by decide, rfl⟩
example : sPopScope "count1" "count2" cPrim (fun n => if n = "count1" then .plain .nil else vInt 2) (.plain .nil) st0 :=
  ⟨Or.inl (by decide), Or.inr ⟨2, by decide, by decide⟩⟩
example : sStoreIndex "value" cPrim (fun _ => vInt 3) (.plain .nil) st0 := by
  show vInt 3 ≠ .plain .nil
  decide
example : sStoreAlways "value" cPrim (fun _ => vInt 3) (.plain .nil) st0 := ⟨rfl, rfl⟩
example : sFold .add "v1" "v2" cPrim (fun _ => .const (.int 2)) (.plain (.int 4)) st0 := ⟨rfl, rfl, .int 4, rfl, rfl⟩
example : sAtLine "line1" cPrim (fun _ => vInt 3) (.plain .nil) st0 := rfl
example : sLoadThis "name" cPrim (fun _ => vStr "x") (.plain .nil) st0 := ⟨"x", rfl⟩
example : sCreateStore "symbolName" cPrim (fun _ => vStr "x") (.plain .nil) { st0 with stack := [vInt 1] } :=
  ⟨⟨by decide, by decide, by decide⟩, vInt 1, [], rfl, rfl⟩
example : sIncrement "name" "increment" cPrim (fun n => if n = "name" then vStr "x" else .const (.int 1)) (.plain .nil)
    { st0 with scopes := [[⟨"x", vInt 1, false⟩]] } :=
  ⟨C02_incr_law_concrete, ⟨by decide, by decide, by decide⟩, rfl, by decide, by intro sym h; cases h; exact ⟨_, rfl⟩⟩

end EgoVerif.C02
