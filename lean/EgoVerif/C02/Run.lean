import EgoVerif.C02.Shapes
/-
C02 — whole-program execution with branches (`run`), and how a run passes through a straight-line segment.
-/
namespace EgoVerif.C02

def target (i : Instr) : Option Nat :=
  match i.arg with
  | .val (.plain (.int t)) => if 0 ≤ t then some t.toNat else none
  | _ => none

/-- what one dispatched instruction does to the control state -/
inductive Next where
  | halt (r : R)
  | goto (pc : Nat) (st : MState)

def branchIf (want : Bool) (i : Instr) (pc : Nat) (st : MState) : Next :=
  match pop st with
  | .error e => .halt (.error e)
  | .ok (v, st') =>
    match v.unwrap with
    | .plain (.bool b) =>
      if b == want then
        match target i with
        | some t => .goto t st'
        | none => .halt (.error .invalidOperand)
      else .goto (pc + 1) st'
    | _ => .halt (.error .invalidType)

def next (P : Prim) (i : Instr) (pc : Nat) (st : MState) : Next :=
  match i.op with
  | .stop => .halt (.ok st)
  | .branch =>
    match target i with
    | some t => .goto t st
    | none => .halt (.error .invalidOperand)
  | .branchTrue => branchIf true i pc st
  | .branchFalse => branchIf false i pc st
  | _ =>
    match step1 P i st with
    | .error e => .halt (.error e)
    | .ok st' => .goto (pc + 1) st'

def run (P : Prim) (prog : List Instr) : Nat → Nat → MState → Option R
  | 0, _, _ => none
  | f + 1, pc, st =>
    match prog[pc]? with
    | none => some (.ok st)
    | some i =>
      match next P i pc st with
      | .halt r => some r
      | .goto pc' st' => run P prog f pc' st'

def Opc.isControl : Opc → Bool
  | .branch | .branchTrue | .branchFalse | .stop => true
  | _ => false

theorem next_plain (P : Prim) (i : Instr) (pc : Nat) (st : MState) (h : i.op.isControl = false) :
    next P i pc st = (match step1 P i st with | .error e => .halt (.error e) | .ok st' => .goto (pc + 1) st') := by
  unfold next
  cases hop : i.op <;> simp_all [Opc.isControl]

theorem run_mono (P : Prim) (prog : List Instr) (f pc : Nat) (st : MState) (r : R)
    (h : run P prog f pc st = some r) : run P prog (f + 1) pc st = some r := by
  induction f generalizing pc st with
  | zero => simp [run] at h
  | succ n ih =>
    unfold run at h ⊢
    cases hi : prog[pc]? with
    | none => simpa [hi] using h
    | some i =>
      simp only [hi] at h ⊢
      cases hn : next P i pc st with
      | halt r' => simpa [hn] using h
      | goto pc' st' => simp only [hn] at h ⊢; exact ih _ _ h

theorem run_mono_add (P : Prim) (prog : List Instr) (f k pc : Nat) (st : MState) (r : R)
    (h : run P prog f pc st = some r) : run P prog (f + k) pc st = some r := by
  induction k with
  | zero => exact h
  | succ n ih => exact run_mono P prog (f + n) pc st r ih

/-- a straight-line segment `seg` sits at address `a` of `prog` -/
def SegAt (prog : List Instr) (a : Nat) (seg : List Instr) : Prop :=
  ∀ k (hk : k < seg.length), prog[a + k]? = some seg[k]

theorem SegAt.tail {prog : List Instr} {a : Nat} {i : Instr} {rest : List Instr} (h : SegAt prog a (i :: rest)) :
    prog[a]? = some i ∧ SegAt prog (a + 1) rest := by
  constructor
  · have := h 0 (Nat.zero_lt_succ _)
    simp only [Nat.add_zero, List.getElem_cons_zero] at this
    exact this
  · intro k hk
    have := h (k + 1) (by simp; omega)
    simpa [Nat.add_assoc, Nat.add_comm 1 k] using this

/-- running into a straight-line segment: either it fails (and so does the run) or the run continues behind it -/
theorem seg_forward (P : Prim) (prog : List Instr) (seg : List Instr) (hc : ∀ i ∈ seg, i.op.isControl = false) :
    ∀ (a f : Nat) (st : MState) (r : R), SegAt prog a seg → run P prog f a st = some r →
      (∃ e, exec P seg st = .error e ∧ r = .error e) ∨
      (∃ st' f', exec P seg st = .ok st' ∧ f' + seg.length = f ∧ run P prog f' (a + seg.length) st' = some r) := by
  induction seg with
  | nil =>
    intro a f st r _ h
    exact Or.inr ⟨st, f, rfl, by simp, by simpa using h⟩
  | cons i rest ih =>
    intro a f st r hs h
    obtain ⟨hi, hrest⟩ := hs.tail
    cases f with
    | zero => simp [run] at h
    | succ n =>
      unfold run at h
      simp only [hi] at h
      rw [next_plain P i a st (hc i (by simp))] at h
      rw [exec_cons]
      cases hst : step1 P i st with
      | error e => simp only [hst] at h; exact Or.inl ⟨e, rfl, by simpa using h.symm⟩
      | ok st1 =>
        simp only [hst] at h
        rcases ih (fun j hj => hc j (by simp [hj])) (a + 1) n st1 r hrest h with ⟨e, he, hr⟩ | ⟨st', f', he, hf, hr⟩
        · exact Or.inl ⟨e, he, hr⟩
        · refine Or.inr ⟨st', f', he, by simp; omega, ?_⟩
          simpa [Nat.add_assoc, Nat.add_comm 1 rest.length] using hr

/-- and conversely -/
theorem seg_backward (P : Prim) (prog : List Instr) (seg : List Instr) (hc : ∀ i ∈ seg, i.op.isControl = false) :
    ∀ (a : Nat) (st : MState), SegAt prog a seg →
      (∀ e, exec P seg st = .error e → run P prog seg.length a st = some (.error e)) ∧
      (∀ st' f r, exec P seg st = .ok st' → run P prog f (a + seg.length) st' = some r →
         run P prog (f + seg.length) a st = some r) := by
  induction seg with
  | nil =>
    intro a st _
    exact ⟨by intro e h; simp at h, by intro st' f r h hr; simp at h; subst h; simpa using hr⟩
  | cons i rest ih =>
    intro a st hs
    obtain ⟨hi, hrest⟩ := hs.tail
    have hci := hc i (by simp)
    constructor
    · intro e he
      rw [exec_cons] at he
      show run P prog (rest.length + 1) a st = _
      unfold run
      simp only [hi]
      rw [next_plain P i a st hci]
      cases hst : step1 P i st with
      | error e' => simp only [hst] at he ⊢; cases he; rfl
      | ok st1 =>
        simp only [hst] at he ⊢
        exact (ih (fun j hj => hc j (by simp [hj])) (a + 1) st1 hrest).1 e he
    · intro st' f r he hr
      rw [exec_cons] at he
      show run P prog (f + (rest.length + 1)) a st = _
      have : f + (rest.length + 1) = (f + rest.length) + 1 := by omega
      rw [this]
      unfold run
      simp only [hi]
      rw [next_plain P i a st hci]
      cases hst : step1 P i st with
      | error e' => simp [hst] at he
      | ok st1 =>
        simp only [hst] at he ⊢
        apply (ih (fun j hj => hc j (by simp [hj])) (a + 1) st1 hrest).2 st' f r he
        simpa [Nat.add_assoc, Nat.add_comm 1 rest.length] using hr
end EgoVerif.C02
