import EgoVerif.C02.PatchDefs
/- C02 — which instruction sits where in the patched program. -/
namespace EgoVerif.C02

section
variable (Q : List Instr) (s d : Nat) (ins : List Instr)

theorem patch_lt (pc : Nat) (h : pc < s) (hlen : s + d ≤ Q.length) :
    (patch Q s d ins)[pc]? = (Q[pc]?).map (fixup s d ins.length) := by
  unfold patch
  rw [List.getElem?_map, List.append_assoc, List.getElem?_append_left (by simp; omega)]
  rw [List.getElem?_take_of_lt h]

theorem patch_mid (k : Nat) (h : k < ins.length) (hlen : s + d ≤ Q.length) :
    (patch Q s d ins)[s + k]? = some (fixup s d ins.length ins[k]) := by
  unfold patch
  rw [List.getElem?_map, List.append_assoc, List.getElem?_append_right (by simp; omega)]
  have : s + k - (List.take s Q).length = k := by simp; omega
  rw [this, List.getElem?_append_left h]
  simp [h]

theorem patch_ge (pc : Nat) (h : s + d ≤ pc) (hlen : s + d ≤ Q.length) :
    (patch Q s d ins)[pc - d + ins.length]? = (Q[pc]?).map (fixup s d ins.length) := by
  unfold patch
  rw [List.getElem?_map, List.append_assoc, List.getElem?_append_right (by simp; omega)]
  have h1 : pc - d + ins.length - (List.take s Q).length = ins.length + (pc - (s + d)) := by simp; omega
  rw [h1, List.getElem?_append_right (by omega)]
  have h2 : ins.length + (pc - (s + d)) - ins.length = pc - (s + d) := by omega
  rw [h2, List.getElem?_drop]
  congr 2
  omega

theorem window_segAt (hlen : s + d ≤ Q.length) : SegAt Q s ((Q.drop s).take d) := by
  intro k hk
  have hk' : k < d := by simp at hk; omega
  rw [List.getElem_take, List.getElem_drop]
  rw [List.getElem?_eq_getElem]

theorem ins_segAt (hlen : s + d ≤ Q.length) (hI : ∀ i ∈ ins, i.op.isControl = false) :
    SegAt (patch Q s d ins) s ins := by
  intro k hk
  rw [patch_mid Q s d ins k hk hlen, fixup_plain _ _ _ _ (hI _ (List.getElem_mem hk))]
end
end EgoVerif.C02
