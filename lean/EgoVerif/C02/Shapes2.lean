import EgoVerif.C02.Shapes
/-
C02 — soundness of the rule shapes that touch the symbol table.
-/
namespace EgoVerif.C02
variable (P : Prim)

/-- a plain identifier: not empty, no read-only prefix (in particular not the discard name "_") -/
def plainName (n : String) : Prop := n.isEmpty = false ∧ hasPrefix n = false ∧ n ≠ "_"

theorem plainName_notPrefixed {n : String} (h : plainName n) : isPrefixed n = false := by
  simp [isPrefixed, h.2.1]

theorem plainName_ne_discard {n : String} (h : plainName n) : (n == "_") = false := by
  simpa using h.2.2

theorem ofVal_cases (v : Val) : Opd.ofVal v = .none ∨ Opd.ofVal v = .val v := by
  by_cases h : v = .plain .nil
  · left; subst h; rfl
  · right; exact ofVal_ne h

/-! ### 11 "Sequential PopScope" -/
theorem popScopeN_add (a b : Nat) (st : MState) :
    popScopeN (a + b) st = (match popScopeN a st with | .error e => .error e | .ok s => popScopeN b s) := by
  induction a generalizing st with
  | zero => simp [popScopeN]
  | succ n ih =>
    have : n + 1 + b = (n + b) + 1 := by omega
    rw [this]
    simp only [popScopeN]
    cases popScope1 st with
    | error e => rfl
    | ok s => exact ih s

/-- a count operand as the compiler emits it: nil (one level) or a non-negative int -/
def countOperand (v : Val) : Prop := v = .plain .nil ∨ ∃ n : Int, 0 ≤ n ∧ v = vInt n

theorem countOf_ofVal {v : Val} (h : countOperand v) : countOf (Opd.ofVal v) = .ok (cntOf v).toNat := by
  rcases h with h | ⟨n, _, h⟩
  · subst h; simp [Opd.ofVal, countOf, cntOf]
  · subst h; simp [Opd.ofVal, vInt, countOf, cntOf, Val.asInt?]

theorem cntOf_nonneg {v : Val} (h : countOperand v) : 0 ≤ cntOf v := by
  rcases h with h | ⟨n, hn, h⟩
  · subst h; simp [cntOf]
  · subst h; simp [cntOf, vInt, Val.asInt?, hn]

theorem sound_popScope2 (c1 c2 : Val) (st : MState) (h1 : countOperand c1) (h2 : countOperand c2) :
    exec P [⟨.popScope, Opd.ofVal c1⟩, ⟨.popScope, Opd.ofVal c2⟩] st
      = exec P [⟨.popScope, Opd.ofVal (vInt (cntOf c1 + cntOf c2))⟩] st := by
  rw [exec_cons, exec_one]
  simp only [step1, stepPopScope, countOf_ofVal h1, countOf_ofVal h2, ofVal_int]
  have hn : countOf (.val (vInt (cntOf c1 + cntOf c2))) = .ok ((cntOf c1).toNat + (cntOf c2).toNat) := by
    have := cntOf_nonneg h1; have := cntOf_nonneg h2
    simp [countOf, vInt, Val.asInt?]; omega
  rw [hn]
  simp only [popScopeN_add]
  cases popScopeN (cntOf c1).toNat st with
  | error e => rfl
  | ok s => simp only [exec_one, step1, stepPopScope, countOf_ofVal h2]

/-! ### 8 "Load followed by SetThis": sound for a Go-string name -/
theorem unwrap_unwrap (v : Val) : v.unwrap.unwrap = v.unwrap := by cases v <;> rfl

theorem sound_loadThis (s : String) (st : MState) :
    exec P [⟨.load, Opd.ofVal (vStr s)⟩, ⟨.setThis, .none⟩] st = exec P [⟨.loadThis, Opd.ofVal (vStr s)⟩] st := by
  rw [exec_cons, exec_one, ofVal_str]
  simp only [step1, stepLoad, stepLoadThis, nameOfArg, vStr, Val.asName]
  by_cases he : s.isEmpty
  · simp [he]
  · simp only [he]
    cases hg : getSym st.scopes s with
    | none => simp
    | some sym =>
      simp [exec_one, step1, stepSetThis, push, pop, unwrap_unwrap]

/-! ### symbol-table lemmas -/
theorem find_put (sc : Scope) (n : String) (v : Val) (ro : Bool) :
    Scope.find? (Scope.put sc n v ro) n = some ⟨n, v, ro⟩ := by
  induction sc with
  | nil => simp [Scope.put, Scope.find?]
  | cons s rest ih =>
    unfold Scope.put
    by_cases h : (s.name == n) = true
    · simp [h, Scope.find?]
    · have h' : (s.name == n) = false := by simpa using h
      simp only [h', Bool.false_eq_true, ↓reduceIte]
      unfold Scope.find? at ih ⊢
      simp only [List.find?, h']
      exact ih

/-! ### 12 "Create and store": sound for a plain name when a non-marker value is on the stack -/
theorem checkCore_undef (m : Mode) (v : Val) : checkCore P m (some (.plain .undef)) v = .ok v.unwrap := by
  simp only [checkCore]
  split <;> rfl

theorem sound_createStore (n : Val) (st : MState) (v : Val) (rest : List Val)
    (hn : plainName n.asName) (hs : st.stack = v :: rest) (hv : v.isMarker = false) :
    exec P [⟨.symbolCreate, Opd.ofVal n⟩, ⟨.store, Opd.ofVal n⟩] st = exec P [⟨.createAndStore, Opd.ofVal n⟩] st := by
  have hnp := plainName_notPrefixed hn
  have hnd := plainName_ne_discard hn
  have hpre := hn.2.1
  have hne := hn.1
  have hval : Opd.ofVal n = .val n := by
    apply ofVal_ne; intro h; subst h; simp [Val.asName] at hne
  rw [exec_cons, exec_one, hval]
  simp only [step1, stepSymbolCreate, nameOfArg, stepCreateAndStore, pop, hs, hv, Bool.false_eq_true, ↓reduceIte, createCore]
  by_cases hk : isConstant st.scopes n.asName = true
  · simp [hk]
  · simp only [hk]
    cases hsc : st.scopes with
    | nil => simp [createSym]
    | cons sc more =>
      simp only [createSym, hne]
      by_cases hf : (Scope.find? sc n.asName).isSome = true
      · simp [hf]
      · simp only [hf, exec_one, step1, stepStore, pop, hs, nameOfArg]
        simp only [storeCore, hnp, hv, hnd, checkType, getSym, find_put, Option.map, checkCore_undef, hpre, setSym,
          Bool.false_and, Bool.false_eq_true, ↓reduceIte, Bool.false_or]

end EgoVerif.C02
