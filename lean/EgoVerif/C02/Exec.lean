import EgoVerif.C02.Model
/-
C02 — instruction semantics (`step1`) and straight-line execution (`exec`).  Each definition names the Go
handler it mirrors.  Written with explicit matches (no do-notation) so that proofs can case-split on them.
-/
namespace EgoVerif.C02

abbrev R := Except Err MState

/-- Context.PopWithoutUnwrapping -/
def pop (st : MState) : Except Err (Val × MState) :=
  match st.stack with
  | [] => .error .stackUnderflow
  | v :: rest => .ok (v, { st with stack := rest })

def push (st : MState) (v : Val) : MState := { st with stack := v :: st.stack }

/-- dropByteCode's loop -/
def popN : Nat → MState → R
  | 0, st => .ok st
  | n + 1, st =>
    match pop st with
    | .error e => .error e
    | .ok (_, st') => popN n st'

/-- dropToMarkerByteCode: `target = none` is the nil operand (any marker stops the loop);
    the loop never drops below the frame pointer -/
def dropTo (target : Option String) : List Val → Nat → List Val
  | [], _ => []
  | v :: rest, fp =>
    if (v :: rest).length ≤ fp then v :: rest
    else match v with
      | .marker l =>
        match target with
        | none => rest
        | some t => if l == t then rest else dropTo target rest fp
      | _ => dropTo target rest fp

/-- Context.checkTypeCore given the destination's current value -/
def checkCore (P : Prim) (m : Mode) (existing : Option Val) (value : Val) : Except Err Val :=
  let isC := value.isConst
  let v := value.unwrap
  if m == .dynamic || v == .plain .nil then .ok v
  else match existing with
    | none => .ok v
    | some e =>
      match e, v with
      | .plain .nil, _ => .ok v
      | .plain .undef, _ => .ok v
      | .plain (.int _), .plain (.int _) => .ok v
      | .plain (.str _), .plain (.str _) => .ok v
      | .plain (.bool _), .plain (.bool _) => .ok v
      | .ref _, .ref _ => .ok v
      | .plain e, .plain b => (P.coerce m e b isC).map .plain
      | _, _ => .error .invalidVarType

/-- Context.checkType -/
def checkType (P : Prim) (st : MState) (name : String) (value : Val) : Except Err Val :=
  checkCore P st.mode ((getSym st.scopes name).map (·.val)) value

/-- popScopeByteCode, one level: the root table cannot be popped; the receiver stack is cleared -/
def popScope1 (st : MState) : R :=
  match st.scopes with
  | _ :: (s2 :: rest) => .ok { st with scopes := s2 :: rest, this := [] }
  | _ => .error .popRoot

def popScopeN : Nat → MState → R
  | 0, st => .ok st
  | n + 1, st =>
    match popScope1 st with
    | .error e => .error e
    | .ok st' => popScopeN n st'

/-- the count operand of Drop / PopScope: nil means 1 -/
def countOf : Opd → Except Err Nat
  | .none => .ok 1
  | .val v => match v.asInt? with
    | some n => .ok n.toNat
    | none => .error (.other 7)          -- data.Int of a non-integer: outside the value model
  | _ => .error (.other 7)

def arOf : Opc → Option ArOp
  | .add => some .add | .sub => some .sub | .mul => some .mul | .div => some .div | _ => none

def cmpOf : Opc → Option CmpOp
  | .lessThan => some .lt | .lessThanOrEqual => some .le | .greaterThan => some .gt
  | .greaterThanOrEqual => some .ge | .equal => some .eq | .notEqual => some .ne | _ => none

def genName (k : Nat) : String := "#" ++ toString k

/-- the tail shared by setThisByteCode and loadThisByteCode: bind a generated name, push the receiver -/
def bindThis (st : MState) (v : Val) : MState :=
  let name := genName st.gen
  { st with scopes := setAlways st.scopes name v, gen := st.gen + 1, this := (name, v) :: st.this }

def nameOfArg : Opd → String
  | .val nv => nv.asName
  | _ => ""

/-- pushByteCode -/
def stepPush (arg : Opd) (st : MState) : R :=
  match arg with
  | .none => .ok (push st (.plain .nil))
  | .val v => .ok (push st v)
  | _ => .error (.other 1)

/-- dropByteCode -/
def stepDrop (arg : Opd) (st : MState) : R :=
  match countOf arg with
  | .error e => .error e
  | .ok n => popN n st

/-- dropToMarkerByteCode -/
def stepDropToMarker (arg : Opd) (st : MState) : R :=
  let target := match arg with
    | .none => none
    | .val (.marker l) => some l
    | _ => some ""
  .ok { st with stack := dropTo target st.stack st.fp }

/-- loadByteCode (global cache off) -/
def stepLoad (arg : Opd) (st : MState) : R :=
  let name := nameOfArg arg
  if name.isEmpty then .error .invalidIdentifier
  else match getSym st.scopes name with
    | none => .error .unknownIdentifier
    | some s => .ok (push st s.val.unwrap)

/-- storeByteCode after name and value have been determined -/
def storeCore (P : Prim) (name : String) (value : Val) (st1 : MState) : R :=
  if isPrefixed name && (match getSym st1.scopes name with
      | none => true
      | some s => s.val != .plain .undef) then .error .readOnly
  else if value.isMarker then .error .functionReturnedVoid
  else if name == "_" then .ok st1
  else match checkType P st1 name value with
    | .error e => .error e
    | .ok v =>
      let v := if hasPrefix name then (match v with | .plain b => .const b | x => x) else v
      match setSym st1.scopes name v with
      | .error e => .error e
      | .ok scs => .ok { st1 with scopes := scs }

/-- storeByteCode -/
def stepStore (P : Prim) (arg : Opd) (st : MState) : R :=
  match arg with
  | .two a v => storeCore P a.asName v st
  | _ =>
    match pop st with
    | .error e => .error e
    | .ok (v, st1) => storeCore P (nameOfArg arg) v st1

/-- storeAlwaysByteCode -/
def stepStoreAlways (arg : Opd) (st : MState) : R :=
  match arg with
  | .two a v => .ok { st with scopes := setAlways st.scopes a.asName v }
  | _ =>
    match pop st with
    | .error e => .error e
    | .ok (v, st1) =>
      if v.isMarker then .error .functionReturnedVoid
      else .ok { st1 with scopes := setAlways st1.scopes (nameOfArg arg) v.unwrap }

/-- createAndStoreByteCode after name and (unwrapped) value have been determined -/
def createCore (name : String) (value : Val) (st1 : MState) : R :=
  if isConstant st1.scopes name then .error .readOnly
  else match createSym st1.scopes name with
    | .error e => .error e
    | .ok scs =>
      match (if isPrefixed name then setConstant scs name value else setSym scs name value) with
      | .error e => .error e
      | .ok scs' => .ok { st1 with scopes := scs' }

/-- createAndStoreByteCode -/
def stepCreateAndStore (arg : Opd) (st : MState) : R :=
  match arg with
  | .two a v => createCore a.asName v.unwrap st
  | _ =>
    match pop st with
    | .error e => .error e
    | .ok (v, st1) =>
      if v.isMarker then .error .functionReturnedVoid
      else createCore (nameOfArg arg) v.unwrap st1

/-- symbolCreateByteCode -/
def stepSymbolCreate (arg : Opd) (st : MState) : R :=
  let name := nameOfArg arg
  if isConstant st.scopes name then .error .readOnly
  else match createSym st.scopes name with
    | .error e => .error e
    | .ok scs => .ok { st with scopes := scs }

/-- symbolCreateIfByteCode -/
def stepSymbolOptCreate (arg : Opd) (st : MState) : R :=
  let name := nameOfArg arg
  if isConstant st.scopes name then .error .readOnly
  else if (match st.scopes with | sc :: _ => (sc.find? name).isSome | [] => false) then .ok st
  else match createSym st.scopes name with
    | .error e => .error e
    | .ok scs => .ok { st with scopes := scs }

/-- getDiadicValues + add/sub/mul/divByteCode -/
def stepArith (P : Prim) (op : ArOp) (st : MState) : R :=
  match pop st with
  | .error e => .error e
  | .ok (v2, st1) =>
    match pop st1 with
    | .error e => .error e
    | .ok (v1, st2) =>
      if v1.isMarker || v2.isMarker then .error .functionReturnedVoid
      else match P.arith st.mode op v1 v2 with
        | .error e => .error e
        | .ok r => .ok (push st2 (.plain r))

/-- getComparisonTerms (v2 from a one-element operand, else from the stack) + the comparison handler -/
def stepCmp (P : Prim) (op : CmpOp) (arg : Opd) (st : MState) : R :=
  match (match arg with
      | .one a => Except.ok (a, st)
      | _ => pop st) with
  | .error e => .error e
  | .ok (v2, st1) =>
    match pop st1 with
    | .error e => .error e
    | .ok (v1, st2) =>
      if v1.isMarker || v2.isMarker then .error .functionReturnedVoid
      else match P.cmp st.mode op v1 v2 with
        | .error e => .error e
        | .ok b => .ok (push st2 (.plain (.bool b)))

/-- atLineByteCode -/
def stepAtLine (arg : Opd) (st : MState) : R :=
  let lv := match arg with
    | .val v => v.asInt?
    | .one v => v.asInt?
    | .two v _ => v.asInt?
    | .none => some 0                    -- data.Int(nil) = 0
  match lv with
  | some n => .ok { st with line := n }
  | none => .error (.other 7)            -- data.Int of a non-integer: outside the value model

/-- popScopeByteCode -/
def stepPopScope (arg : Opd) (st : MState) : R :=
  match countOf arg with
  | .error e => .error e
  | .ok n => popScopeN n st

/-- setThisByteCode -/
def stepSetThis (arg : Opd) (st : MState) : R :=
  match arg with
  | .none =>
    match pop st with
    | .error e => .error e
    | .ok (v, st1) => .ok (bindThis (push st1 v.unwrap) v.unwrap)
  | .val nv =>
    match getSym st.scopes nv.asName with
    | some s => .ok { st with this := (nv.asName, s.val) :: st.this }
    | none => .ok st
  | _ => .ok st

/-- loadThisByteCode: a Go string operand is a variable name, anything else is the receiver itself -/
def stepLoadThis (arg : Opd) (st : MState) : R :=
  match arg with
  | .val (.plain (.str name)) =>
    if name.isEmpty then .error .invalidIdentifier
    else match getSym st.scopes name with
      | none => .error .unknownIdentifier
      | some s => .ok (bindThis (push st s.val.unwrap) s.val.unwrap)   -- fixes/C02.patch: unwrapped, as Load does
  | .val v => .ok (bindThis (push st v) v)
  | .none => .ok (bindThis (push st (.plain .nil)) (.plain .nil))
  | _ => .error (.other 4)

/-- storeIndexByteCode -/
def stepStoreIndex (P : Prim) (arg : Opd) (st : MState) : R :=
  match (match arg with
      | .none => (match pop st with
        | .error e => Except.error e
        | .ok (v, st') => .ok (v.unwrap, st'))
      | .val v => .ok (v.unwrap, st)
      | _ => .error (.other 5)) with
  | .error e => .error e
  | .ok (idx, st1) =>
    match pop st1 with
    | .error e => .error e
    | .ok (dest, st2) =>
      match pop st2 with
      | .error e => .error e
      | .ok (v, st3) =>
        if dest.isMarker || idx.isMarker || v.isMarker then .error .functionReturnedVoid
        else match P.storeIdx st.mode dest.unwrap idx v with
          | some e => .error e
          | none =>                      -- the container is pushed back after the store
            .ok { st3 with stack := dest.unwrap :: st3.stack, writes := (dest.unwrap, idx, v) :: st3.writes }

/-- incrementByteCode (with fixes/C02.patch: an unknown variable is ErrUnknownIdentifier, as in Load, and the result
    passes Store's type boundary `checkType` before it is set) -/
def stepIncrement (P : Prim) (arg : Opd) (st : MState) : R :=
  match arg with
  | .two nv k =>
    match getSym st.scopes nv.asName with
    | none => .error .unknownIdentifier
    | some s =>
      match s.val.unwrap with
      | .plain .nil => .error .invalidType
      | .plain b =>
        match P.incr st.mode b k with
        | .error e => .error e
        | .ok r =>
          -- `store := func(result any) error { result, err := c.checkType(symbol, result); …; return c.set(symbol, result) }`
          match checkType P st nv.asName (.plain r) with
          | .error e => .error e
          | .ok v =>
            match setSym st.scopes nv.asName v with
            | .error e => .error e
            | .ok scs => .ok { st with scopes := scs }
      | _ => .error (.other 10)          -- containers (array append) and markers: outside the value model
  | _ => .error .invalidOperand

/-- one non-branch instruction -/
def step1 (P : Prim) (i : Instr) (st : MState) : R :=
  match i.op with
  | .push => stepPush i.arg st
  | .drop => stepDrop i.arg st
  | .dropToMarker => stepDropToMarker i.arg st
  | .load => stepLoad i.arg st
  | .store => stepStore P i.arg st
  | .storeAlways => stepStoreAlways i.arg st
  | .createAndStore => stepCreateAndStore i.arg st
  | .symbolCreate => stepSymbolCreate i.arg st
  | .symbolOptCreate => stepSymbolOptCreate i.arg st
  | .add => stepArith P .add st
  | .sub => stepArith P .sub st
  | .mul => stepArith P .mul st
  | .div => stepArith P .div st
  | .lessThan => stepCmp P .lt i.arg st
  | .lessThanOrEqual => stepCmp P .le i.arg st
  | .greaterThan => stepCmp P .gt i.arg st
  | .greaterThanOrEqual => stepCmp P .ge i.arg st
  | .equal => stepCmp P .eq i.arg st
  | .notEqual => stepCmp P .ne i.arg st
  | .atLine => stepAtLine i.arg st
  | .popScope => stepPopScope i.arg st
  | .setThis => stepSetThis i.arg st
  | .loadThis => stepLoadThis i.arg st
  | .storeIndex => stepStoreIndex P i.arg st
  | .increment => stepIncrement P i.arg st
  | .branch | .branchTrue | .branchFalse | .stop => .error (.other 6)

/-- straight-line execution of an instruction list -/
def exec (P : Prim) : List Instr → MState → R
  | [], st => .ok st
  | i :: rest, st =>
    match step1 P i st with
    | .error e => .error e
    | .ok st' => exec P rest st'

end EgoVerif.C02
