import EgoVerif.C02.Exec
/-
C02 — the rule language of optimizer.go (`optimization`, `placeholder`, `empty`), instantiation of a rule
under a placeholder binding, and the canonical rule shapes whose soundness Props.lean proves.
The table of the tree under check is GENERATED (tools/extract_c02) and compared with `provedRules`.
-/
namespace EgoVerif.C02

/-- optimizerOperation -/
inductive PhOp where
  | nothing | store | read | count | runFragment
  deriving DecidableEq, Repr

/-- placeholder{Name, MustBeString, ExcludeStackMarker, Operation, Register} -/
structure Ph where
  name : String
  mustStr : Bool := false
  exclMarker : Bool := false
  op : PhOp := .nothing
  reg : Nat := 0
  deriving DecidableEq, Repr

/-- element of a `[]any{…}` operand -/
inductive Item where
  | lit (v : Val)
  | ph (p : Ph)
  deriving DecidableEq, Repr

/-- operand specification of a pattern / replacement instruction -/
inductive Spec where
  | absent                    -- no Operand field: nil
  | empty                     -- empty{}: the real operand must be nil
  | lit (v : Val)             -- concrete literal, NewStackMarker("…")
  | ph (p : Ph)
  | arr (items : List Item)
  deriving DecidableEq, Repr

structure PInstr where
  op : Opc
  spec : Spec
  deriving DecidableEq, Repr

structure Rule where
  pattern : List PInstr
  replacement : List PInstr
  deriving DecidableEq, Repr

/-- Go's `any`: the nil operand and the nil value are the same thing -/
def Opd.ofVal (v : Val) : Opd := if v = .plain .nil then .none else .val v

abbrev Binding := String → Val

/-- OptCount: the operand as an integer, 1 when nil (`increment, _ = data.Int(i.Operand)`) -/
def cntOf (v : Val) : Int := if v = .plain .nil then 1 else v.asInt?.getD 0

/-- the scratch register `reg` after matching `pat`: OptCount placeholders add their operand on the FIRST
    occurrence of their name (optimizer.go, the `else` branch of the `inMap` test) -/
def regCount (σ : Binding) (reg : Nat) : List PInstr → List String → Int
  | [], _ => 0
  | i :: rest, seen =>
    match i.spec with
    | .ph p =>
      if seen.contains p.name then regCount σ reg rest seen
      else (if p.op == .count && p.reg == reg then cntOf (σ p.name) else 0) + regCount σ reg rest (p.name :: seen)
    | _ => regCount σ reg rest seen

def instItem (σ : Binding) : Item → Val
  | .lit v => v
  | .ph p => σ p.name

/-- operand of an instantiated instruction.  `regs` are the scratch registers after the match and `frag`
    the value the optimizer computed for an optRunConstantFragment placeholder. -/
def instSpec (σ : Binding) (regs : Nat → Int) (frag : Val) : Spec → Option Opd
  | .absent => some .none
  | .empty => some .none
  | .lit v => some (Opd.ofVal v)
  | .ph p =>
    match p.op with
    | .read => some (Opd.ofVal (.plain (.int (regs p.reg))))
    | .runFragment => some (Opd.ofVal frag)
    | _ => some (Opd.ofVal (σ p.name))
  | .arr [a] => some (.one (instItem σ a))
  | .arr [a, b] => some (.two (instItem σ a) (instItem σ b))
  | .arr _ => none

def instList (σ : Binding) (regs : Nat → Int) (frag : Val) : List PInstr → Option (List Instr)
  | [] => some []
  | i :: rest =>
    match instSpec σ regs frag i.spec, instList σ regs frag rest with
    | some o, some r => some (⟨i.op, o⟩ :: r)
    | _, _ => none

def Rule.instPattern (r : Rule) (σ : Binding) : Option (List Instr) :=
  instList σ (fun _ => 0) (.plain .nil) r.pattern

def Rule.instReplacement (r : Rule) (σ : Binding) (frag : Val) : Option (List Instr) :=
  instList σ (fun k => regCount σ k r.pattern []) frag r.replacement

/-- what a successful match guarantees about the binding (MustBeString, ExcludeStackMarker) -/
def phOK (σ : Binding) (p : Ph) : Bool :=
  (!p.mustStr || (match σ p.name with | .plain (.str _) => true | _ => false)) &&
  (!p.exclMarker || !(σ p.name).isMarker)

def admissible (r : Rule) (σ : Binding) : Bool :=
  r.pattern.all fun i => match i.spec with
    | .ph p => phOK σ p
    | _ => true

/-! ## canonical rule shapes (one per rule family of optimizations.go) -/

def mLet : Val := .marker "let"
def vStr (s : String) : Val := .plain (.str s)
def vInt (n : Int) : Val := .plain (.int n)

/-- "Assignment optimized away" -/
def rLetNoop : Rule := ⟨[⟨.push, .lit mLet⟩, ⟨.dropToMarker, .lit mLet⟩], []⟩
/-- "Write constant to null variable" -/
def rPushDrop (n : String) : Rule := ⟨[⟨.push, .ph {name := n}⟩, ⟨.drop, .lit (vInt 1)⟩], []⟩
/-- "Store to null variable" -/
def rStoreDiscard : Rule := ⟨[⟨.store, .lit (vStr "_")⟩], [⟨.drop, .absent⟩]⟩
/-- "Create null variable" -/
def rOptCreateDiscard : Rule := ⟨[⟨.symbolOptCreate, .lit (vStr "_")⟩], []⟩
/-- "Constant increment" -/
def rIncrement (n k : String) : Rule :=
  ⟨[⟨.load, .ph {name := n}⟩, ⟨.push, .ph {name := k}⟩, ⟨.add, .absent⟩, ⟨.store, .ph {name := n}⟩],
   [⟨.increment, .arr [.ph {name := n}, .ph {name := k}]⟩]⟩
/-- "<comparison> constant value" (six rules) -/
def rCmpConst (op : Opc) (v : String) : Rule :=
  ⟨[⟨.push, .ph {name := v}⟩, ⟨op, .empty⟩], [⟨op, .arr [.ph {name := v}]⟩]⟩
/-- "Sequential AtLine opcodes" -/
def rAtLine (l1 l2 : String) : Rule :=
  ⟨[⟨.atLine, .ph {name := l1}⟩, ⟨.atLine, .ph {name := l2}⟩], [⟨.atLine, .ph {name := l2}⟩]⟩
/-- "Load followed by SetThis" -/
def rLoadThis (n : String) : Rule :=
  ⟨[⟨.load, .ph {name := n}⟩, ⟨.setThis, .empty⟩], [⟨.loadThis, .ph {name := n}⟩]⟩
/-- "Collapse constant Push and CreateAndStore" -/
def rPushCreateAndStore (v n : String) : Rule :=
  ⟨[⟨.push, .ph {name := v, exclMarker := true}⟩, ⟨.createAndStore, .ph {name := n, mustStr := true}⟩],
   [⟨.createAndStore, .arr [.ph {name := n}, .ph {name := v}]⟩]⟩
/-- "Unnecessary stack marker for constant store" -/
def rLetConstStore (c n : String) : Rule :=
  ⟨[⟨.push, .lit mLet⟩, ⟨.push, .ph {name := c}⟩, ⟨.createAndStore, .ph {name := n}⟩, ⟨.dropToMarker, .lit mLet⟩],
   [⟨.push, .ph {name := c}⟩, ⟨.createAndStore, .ph {name := n}⟩]⟩
/-- "Sequential PopScope" -/
def rPopScope2 (c1 c2 c : String) : Rule :=
  ⟨[⟨.popScope, .ph {name := c1, op := .count, reg := 1}⟩, ⟨.popScope, .ph {name := c2, op := .count, reg := 1}⟩],
   [⟨.popScope, .ph {name := c, op := .read, reg := 1}⟩]⟩
/-- "Create and store" -/
def rCreateStore (n : String) : Rule :=
  ⟨[⟨.symbolCreate, .ph {name := n}⟩, ⟨.store, .ph {name := n}⟩], [⟨.createAndStore, .ph {name := n}⟩]⟩
/-- "Push and Storeindex" -/
def rPushStoreIndex (v : String) : Rule :=
  ⟨[⟨.push, .ph {name := v}⟩, ⟨.storeIndex, .empty⟩], [⟨.storeIndex, .ph {name := v}⟩]⟩
/-- "Constant storeAlways" -/
def rPushStoreAlways (v n : String) : Rule :=
  ⟨[⟨.push, .ph {name := v}⟩, ⟨.storeAlways, .ph {name := n, mustStr := true}⟩],
   [⟨.storeAlways, .arr [.ph {name := n}, .ph {name := v}]⟩]⟩
/-- "Constant <op> fold" (four rules) -/
def rFold (op : Opc) (a b r : String) : Rule :=
  ⟨[⟨.push, .ph {name := a}⟩, ⟨.push, .ph {name := b}⟩, ⟨op, .absent⟩],
   [⟨.push, .ph {name := r, op := .runFragment}⟩]⟩

/-- the shapes with a soundness theorem in Props.lean, with the placeholder names used by the current table -/
def provedRules : List Rule := [
  rLetNoop, rPushDrop "", rStoreDiscard, rOptCreateDiscard, rIncrement "name" "increment",
  rCmpConst .lessThan "value", rCmpConst .lessThanOrEqual "value", rCmpConst .greaterThan "value",
  rCmpConst .greaterThanOrEqual "value", rCmpConst .equal "value", rCmpConst .notEqual "value",
  rAtLine "line1" "line2", rLoadThis "name", rPushCreateAndStore "value" "name", rLetConstStore "constant" "name",
  rPopScope2 "count1" "count2" "count", rCreateStore "symbolName", rPushStoreIndex "value",
  rPushStoreAlways "value" "name",
  rFold .add "v1" "v2" "sum", rFold .sub "v1" "v2" "difference", rFold .mul "v1" "v2" "product",
  rFold .div "v1" "v2" "dividend"]

end EgoVerif.C02
