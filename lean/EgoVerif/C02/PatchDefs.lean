import EgoVerif.C02.Run
/-
C02 — ByteCode.Patch (optimizer.go), its branch fix-up, the branch-target guard of ByteCode.optimize, and how one
dispatched instruction of the patched program relates to the original one.
-/
namespace EgoVerif.C02

def fixup (s d n : Nat) (i : Instr) : Instr :=
  if i.op.isBranch then
    match target i with
    | some t => if t > s then { i with arg := .val (vInt ((t : Int) - d + n)) } else i
    | none => i
  else i

def patch (prog : List Instr) (s d : Nat) (ins : List Instr) : List Instr :=
  (prog.take s ++ ins ++ prog.drop (s + d)).map (fixup s d ins.length)

def guardI (s d : Nat) (i : Instr) : Bool :=
  !i.op.isBranch || (match target i with
    | some t => !(s ≤ t && t < s + d)
    | none => true)

def guardOK (prog : List Instr) (s d : Nat) : Bool := prog.all (guardI s d)

/-- address translation for addresses outside the interior of the window -/
def mp (s d n pc : Nat) : Nat := if pc < s + d then pc else pc - d + n

def Next.map (f : Nat → Nat) : Next → Next
  | .halt r => .halt r
  | .goto p st => .goto (f p) st

theorem isBranch_of_not_control {o : Opc} (h : o.isControl = false) : o.isBranch = false := by
  cases o <;> simp_all [Opc.isControl, Opc.isBranch]

theorem fixup_plain (s d n : Nat) (i : Instr) (h : i.op.isControl = false) : fixup s d n i = i := by
  simp [fixup, isBranch_of_not_control h]

theorem fixup_op (s d n : Nat) (i : Instr) : (fixup s d n i).op = i.op := by
  unfold fixup
  split
  · split
    · split <;> rfl
    · rfl
  · rfl

/-- the destination of a fixed-up branch is the translated destination -/
theorem target_fixup (s d n : Nat) (hd : 0 < d) (i : Instr) (hb : i.op.isBranch = true) (hg : guardI s d i = true) :
    target (fixup s d n i) = (target i).map (mp s d n) := by
  unfold fixup
  simp only [hb, ↓reduceIte]
  cases ht : target i with
  | none => simp [ht]
  | some t =>
    simp only [Option.map]
    have hgt : ¬ (s ≤ t ∧ t < s + d) := by
      intro ⟨h1, h2⟩
      simp [guardI, hb, ht, h1, h2] at hg
    by_cases hts : t > s
    · simp only [hts, ↓reduceIte]
      have h1 : s + d ≤ t := by omega
      have h2 : (0 : Int) ≤ (t : Int) - d + n := by omega
      simp only [target, vInt, h2, ↓reduceIte, mp]
      have : ¬ (t < s + d) := by omega
      simp only [this, ↓reduceIte]
      congr 1
      omega
    · simp only [hts, ↓reduceIte, ht, mp]
      have : t < s + d := by omega
      simp [this]

theorem mp_succ (s d n pc : Nat) (hd : 0 < d) (h : pc < s ∨ s + d ≤ pc) : mp s d n (pc + 1) = mp s d n pc + 1 := by
  unfold mp
  rcases h with h | h
  · have h1 : pc < s + d := by omega
    have h2 : pc + 1 < s + d := by omega
    simp [h1, h2]
  · have h1 : ¬ pc < s + d := by omega
    have h2 : ¬ pc + 1 < s + d := by omega
    simp only [h1, h2, ↓reduceIte]
    omega

theorem next_fixup (P : Prim) (s d n : Nat) (hd : 0 < d) (i : Instr) (pc : Nat) (st : MState)
    (hg : guardI s d i = true) (hpc : pc < s ∨ s + d ≤ pc) :
    next P (fixup s d n i) (mp s d n pc) st = (next P i pc st).map (mp s d n) := by
  have hs := mp_succ s d n pc hd hpc
  by_cases hc : i.op.isControl = false
  · rw [fixup_plain s d n i hc, next_plain P i _ st hc, next_plain P i _ st hc]
    cases step1 P i st <;> simp [Next.map, hs]
  · have hop := fixup_op s d n i
    cases hio : i.op <;> simp [hio, Opc.isControl] at hc
    · -- branch
      have hb : i.op.isBranch = true := by simp [hio, Opc.isBranch]
      have ht := target_fixup s d n hd i hb hg
      unfold next
      simp only [hop, hio, ht]
      cases target i <;> simp [Next.map]
    · have hb : i.op.isBranch = true := by simp [hio, Opc.isBranch]
      have ht := target_fixup s d n hd i hb hg
      unfold next
      simp only [hop, hio, branchIf, ht]
      cases pop st with
      | error e => simp [Next.map]
      | ok p =>
        obtain ⟨v, st'⟩ := p
        simp only []
        cases v.unwrap <;> simp [Next.map]
        rename_i b
        cases b <;> simp [Next.map]
        rename_i bb
        split <;> (try simp [Next.map, hs]) <;> (cases target i <;> simp [Next.map])
    · have hb : i.op.isBranch = true := by simp [hio, Opc.isBranch]
      have ht := target_fixup s d n hd i hb hg
      unfold next
      simp only [hop, hio, branchIf, ht]
      cases pop st with
      | error e => simp [Next.map]
      | ok p =>
        obtain ⟨v, st'⟩ := p
        simp only []
        cases v.unwrap <;> simp [Next.map]
        rename_i b
        cases b <;> simp [Next.map]
        rename_i bb
        split <;> (try simp [Next.map, hs]) <;> (cases target i <;> simp [Next.map])
    · -- stop
      unfold next
      simp [hop, hio, Next.map]

/-- a control transfer never lands strictly inside the window -/
theorem next_outside (P : Prim) (s d : Nat) (i : Instr) (pc : Nat) (st : MState) (p : Nat) (st' : MState)
    (hg : guardI s d i = true) (hpc : pc < s ∨ s + d ≤ pc) (h : next P i pc st = .goto p st') :
    p ≤ s ∨ s + d ≤ p := by
  have hsucc : pc + 1 ≤ s ∨ s + d ≤ pc + 1 := by omega
  have htgt : ∀ t, i.op.isBranch = true → target i = some t → t ≤ s ∨ s + d ≤ t := by
    intro t hb ht
    by_cases h1 : s ≤ t ∧ t < s + d
    · simp [guardI, hb, ht, h1.1, h1.2] at hg
    · omega
  unfold next at h
  cases hio : i.op <;> simp only [hio] at h
  case branch =>
    cases ht : target i with
    | none => simp [ht] at h
    | some t => simp [ht] at h; rw [← h.1]; exact htgt t (by simp [hio, Opc.isBranch]) ht
  case branchTrue =>
    unfold branchIf at h
    cases hp : pop st with
    | error e => simp [hp] at h
    | ok q =>
      obtain ⟨v, s2⟩ := q
      simp only [hp] at h
      cases hv : v.unwrap <;> simp [hv] at h
      rename_i b; cases b <;> simp at h
      rename_i bb
      split at h
      · cases ht : target i with
        | none => simp [ht] at h
        | some t => simp [ht] at h; rw [← h.1]; exact htgt t (by simp [hio, Opc.isBranch]) ht
      · simp at h; rw [← h.1]; exact hsucc
  case branchFalse =>
    unfold branchIf at h
    cases hp : pop st with
    | error e => simp [hp] at h
    | ok q =>
      obtain ⟨v, s2⟩ := q
      simp only [hp] at h
      cases hv : v.unwrap <;> simp [hv] at h
      rename_i b; cases b <;> simp at h
      rename_i bb
      split at h
      · cases ht : target i with
        | none => simp [ht] at h
        | some t => simp [ht] at h; rw [← h.1]; exact htgt t (by simp [hio, Opc.isBranch]) ht
      · simp at h; rw [← h.1]; exact hsucc
  case stop => simp at h
  all_goals (cases hst : step1 P i st <;> simp [hst] at h; rw [← h.1]; exact hsucc)
end EgoVerif.C02
