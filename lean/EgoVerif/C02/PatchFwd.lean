import EgoVerif.C02.PatchIdx
/- C02 — simulation, original → patched. -/
namespace EgoVerif.C02

section
variable (P : Prim) (Q : List Instr) (s d : Nat) (ins : List Instr)
variable (hd : 0 < d) (hlen : s + d ≤ Q.length)
variable (hW : ∀ i ∈ (Q.drop s).take d, i.op.isControl = false) (hI : ∀ i ∈ ins, i.op.isControl = false)
variable (heq : ∀ st, exec P ((Q.drop s).take d) st = exec P ins st)
variable (hg : guardOK Q s d = true)

include hd hlen in
/-- the instruction at a translated address is the fixed-up instruction of the original address -/
theorem patch_at (pc : Nat) (hpc : pc < s ∨ s + d ≤ pc) :
    (patch Q s d ins)[mp s d ins.length pc]? = (Q[pc]?).map (fixup s d ins.length) := by
  unfold mp
  rcases hpc with h | h
  · have : pc < s + d := by omega
    simp only [this, ↓reduceIte]
    exact patch_lt Q s d ins pc h hlen
  · have : ¬ pc < s + d := by omega
    simp only [this, ↓reduceIte]
    exact patch_ge Q s d ins pc h hlen

include hg in
theorem guard_at (pc : Nat) (i : Instr) (h : Q[pc]? = some i) : guardI s d i = true := by
  have hm : i ∈ Q := List.mem_of_getElem? h
  exact (List.all_eq_true.mp hg) i hm

include hd in
theorem mp_start : mp s d ins.length s = s := by
  unfold mp
  have : s < s + d := by omega
  simp [this]

theorem mp_end : mp s d ins.length (s + d) = s + ins.length := by
  unfold mp; simp

include hd hlen hW hI heq hg in
/-- original → patched -/
theorem patch_forward : ∀ (f pc : Nat) (st : MState) (r : R), (pc ≤ s ∨ s + d ≤ pc) →
    run P Q f pc st = some r → ∃ f', run P (patch Q s d ins) f' (mp s d ins.length pc) st = some r := by
  intro f
  induction f using Nat.strongRecOn with
  | _ f ih =>
    intro pc st r hout h
    cases f with
    | zero => simp [run] at h
    | succ k =>
      by_cases hps : pc = s
      · subst hps
        rw [mp_start pc d ins hd]
        rcases seg_forward P Q _ hW pc (k + 1) st r (window_segAt Q pc d hlen) h with ⟨e, he, hr⟩ | ⟨st', f', he, hf, hr⟩
        · subst hr
          rw [heq] at he
          exact ⟨_, (seg_backward P _ ins hI pc st (ins_segAt Q pc d ins hlen hI)).1 e he⟩
        · have hlenW : ((Q.drop pc).take d).length = d := by simp; omega
          rw [hlenW] at hf hr
          obtain ⟨f'', hf''⟩ := ih f' (by omega) (pc + d) st' r (Or.inr (Nat.le_refl _)) hr
          rw [mp_end] at hf''
          rw [heq] at he
          exact ⟨_, (seg_backward P _ ins hI pc st (ins_segAt Q pc d ins hlen hI)).2 st' f'' r he hf''⟩
      · have hpc : pc < s ∨ s + d ≤ pc := by omega
        have hat := patch_at Q s d ins hd hlen pc hpc
        unfold run at h
        cases hi : Q[pc]? with
        | none =>
          simp only [hi] at h hat
          refine ⟨1, ?_⟩
          unfold run
          simp only [hat, Option.map]
          exact h
        | some i =>
          simp only [hi, Option.map] at h hat
          have hgi := guard_at Q s d hg pc i hi
          have hnf := next_fixup P s d ins.length hd i pc st hgi hpc
          cases hn : next P i pc st with
          | halt r' =>
            simp only [hn] at h
            refine ⟨1, ?_⟩
            unfold run
            simp only [hat, hnf, hn, Next.map]
            exact h
          | goto p st2 =>
            simp only [hn] at h
            have hp := next_outside P s d i pc st p st2 hgi hpc hn
            obtain ⟨f'', hf''⟩ := ih k (by omega) p st2 r hp h
            refine ⟨f'' + 1, ?_⟩
            unfold run
            simp only [hat, hnf, hn, Next.map]
            exact hf''
end
end EgoVerif.C02
