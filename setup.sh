#!/bin/sh
# MANIFEST.setup_cmd: build the framework from files on disk only (offline).
set -e
cd "$(dirname "$0")"
python3 tools/gen_main.py
( cd lean && lake build 2>&1 | tail -n 30 )
# warm the Go build cache: compile (not run) every harness test binary in a scratch copy of /repo
S="${VERIF_SCRATCH:-/var/tmp}/verif.setup.$$"
trap 'chmod -R u+w "$S" 2>/dev/null; rm -rf "$S"' EXIT
mkdir -p "$S"
rsync -a --exclude .git /repo/ "$S/"
rsync -a harness/overlay/ "$S/"
export GOFLAGS=-mod=mod GOPROXY=off CGO_ENABLED=0
( cd "$S" && go generate ./... >/dev/null 2>&1 || true
  pkgs=$(cd /verif/harness/overlay && find . -name 'zz_verif_*_test.go' -exec dirname {} \; | sort -u)
  for p in $pkgs; do go test -tags verif -vet=off -count=1 -run '^$' "$p" >/dev/null 2>&1 || echo "setup: warm build of $p failed (checks will report)"; done )
echo "setup done"
