#!/bin/sh
# tools/mkseed.sh Cxx n — scratch worktree of /repo HEAD for a seeding sub-agent + prompt file
id="$1"; n="$2"; hint="$3"
d=/tmp/seed-$id-$n
git -C /repo worktree add -q --detach "$d" HEAD
mkdir -p /verif-wt/prompts
python3 /verif/tools/mutant_prompt.py "$id" "$n" "$hint" > /verif-wt/prompts/seed_${id}_$n.txt
echo "$d"
