#!/bin/sh
# tools/mkwt.sh Cxx — create a worktree /verif-wt/Cxx on branch wt-Cxx with a warm Lean build dir
set -e
id="$1"
mkdir -p /verif-wt
git -C /verif worktree add -q -f "/verif-wt/$id" -b "wt-$id" 2>/dev/null || git -C /verif worktree add -q -f "/verif-wt/$id" "wt-$id"
mkdir -p "/verif-wt/$id/lean/.lake" "/verif-wt/$id/.cache"
cp -r /verif/lean/.lake/build "/verif-wt/$id/lean/.lake/" 2>/dev/null || true
cp -r /verif/.cache/gen "/verif-wt/$id/.cache/" 2>/dev/null || true
echo "/verif-wt/$id"
