// extract_c44 — translator for property C44 (go/ast only, fail closed).
//
//	go run ./tools/extract_c44 <repo root>      → JSON on stdout
//
// It regenerates from the CURRENT source
//
//	(a) the elision rules of both configuration endpoints (internal/server/admin/config.go):
//	    GetConfigHandler (POST /admin/config, "single") and GetAllConfigHandler (GET /admin/config, "all");
//	(b) every string constant of internal/defs/config.go (setting names) and the keys of RestrictedSettings;
//	(c) every JSON response site (util.WriteJSON / json.Marshal / json.MarshalIndent / Encoder.Encode) of the
//	    user, DSN and OAuth authorization-server handlers, flattened to its leaf fields with the JSON name, whether
//	    the field is secret-typed and how the handler fills it (elided constant / omitted / copied / raw).
//
// Anything the extractor does not understand is reported in "errors" and makes the check fail.
package main

import (
	"encoding/json"
	"fmt"
	"go/ast"
	"go/parser"
	"go/token"
	"os"
	"path/filepath"
	"reflect"
	"sort"
	"strconv"
	"strings"
)

type Rule struct {
	Kind string `json:"kind"` // eqfold | contains | containslower
	Arg  string `json:"arg"`
}

type Leaf struct {
	Path   string `json:"path"`
	JSON   string `json:"json"`
	Secret bool   `json:"secret"`
	Disp   string `json:"disp"` // elided | omitted | copied | raw | sanitized
	Why    string `json:"why,omitempty"`
}

type Site struct {
	File    string `json:"file"`
	Func    string `json:"func"`
	Line    int    `json:"line"`
	Type    string `json:"type"`
	LogOnly bool   `json:"log_only"`
	Leaves  []Leaf `json:"leaves"`
}

type Out struct {
	Single     []Rule            `json:"single"`
	All        []Rule            `json:"all"`
	Elided     string            `json:"elided"`
	Consts     map[string]string `json:"consts"`
	Settings   []string          `json:"settings"`
	Restricted []string          `json:"restricted"`
	Sites      []Site            `json:"sites"`
	Sanitizers []string          `json:"sanitizers"`
	Errors     []string          `json:"errors"`
}

var (
	out    = Out{Consts: map[string]string{}}
	fset   = token.NewFileSet()
	consts = map[string]string{}                     // defs constant name → value
	types  = map[string]map[string]*ast.StructType{} // package → type name → struct
	alias  = map[string]map[string]ast.Expr{}        // package → type name → non-struct underlying type
)

func fail(format string, a ...any) { out.Errors = append(out.Errors, fmt.Sprintf(format, a...)) }

func pos(n ast.Node) string {
	p := fset.Position(n.Pos())
	return fmt.Sprintf("%s:%d", filepath.Base(p.Filename), p.Line)
}

func parseDir(dir string, only func(string) bool) []*ast.File {
	ents, err := os.ReadDir(dir)
	if err != nil {
		fail("cannot read %s: %v", dir, err)
		return nil
	}

	res := []*ast.File{}

	for _, e := range ents {
		n := e.Name()
		if e.IsDir() || !strings.HasSuffix(n, ".go") || strings.HasSuffix(n, "_test.go") || strings.HasPrefix(n, "zz_verif") {
			continue
		}

		if only != nil && !only(n) {
			continue
		}

		f, err := parser.ParseFile(fset, filepath.Join(dir, n), nil, parser.ParseComments)
		if err != nil {
			fail("parse %s: %v", n, err)
			continue
		}

		res = append(res, f)
	}

	return res
}

// ---------------------------------------------------------------- constants

func evalConst(e ast.Expr, local map[string]ast.Expr, depth int) (string, bool) {
	if depth > 50 {
		return "", false
	}

	switch x := e.(type) {
	case *ast.BasicLit:
		if x.Kind == token.STRING {
			s, err := strconv.Unquote(x.Value)
			return s, err == nil
		}
	case *ast.Ident:
		if v, ok := consts[x.Name]; ok {
			return v, true
		}

		if d, ok := local[x.Name]; ok {
			return evalConst(d, local, depth+1)
		}
	case *ast.SelectorExpr:
		if p, ok := x.X.(*ast.Ident); ok && p.Name == "defs" {
			v, ok := consts[x.Sel.Name]
			return v, ok
		}
	case *ast.BinaryExpr:
		if x.Op == token.ADD {
			a, ok1 := evalConst(x.X, local, depth+1)
			b, ok2 := evalConst(x.Y, local, depth+1)

			return a + b, ok1 && ok2
		}
	case *ast.ParenExpr:
		return evalConst(x.X, local, depth+1)
	}

	return "", false
}

func loadDefs(root string) {
	files := parseDir(filepath.Join(root, "internal/defs"), nil)
	decl := map[string]ast.Expr{}

	for _, f := range files {
		for _, d := range f.Decls {
			g, ok := d.(*ast.GenDecl)
			if !ok || g.Tok != token.CONST {
				continue
			}

			for _, s := range g.Specs {
				vs := s.(*ast.ValueSpec)
				for i, n := range vs.Names {
					if i < len(vs.Values) {
						decl[n.Name] = vs.Values[i]
					}
				}
			}
		}
	}

	for n, e := range decl {
		if v, ok := evalConst(e, decl, 0); ok {
			consts[n] = v
		}
	}

	// the setting names: string constants of config.go
	for _, f := range files {
		if filepath.Base(fset.Position(f.Pos()).Filename) != "config.go" {
			continue
		}

		for _, d := range f.Decls {
			g, ok := d.(*ast.GenDecl)
			if !ok {
				continue
			}

			if g.Tok == token.CONST {
				for _, s := range g.Specs {
					for _, n := range s.(*ast.ValueSpec).Names {
						v, ok := consts[n.Name]
						if !ok {
							fail("config.go: constant %s is not a string expression the extractor can evaluate", n.Name)
							continue
						}

						out.Consts[n.Name] = v

						if strings.HasPrefix(v, "ego.") && !strings.HasSuffix(v, ".") {
							out.Settings = append(out.Settings, v)
						}
					}
				}
			}

			if g.Tok == token.VAR {
				for _, s := range g.Specs {
					vs := s.(*ast.ValueSpec)
					if len(vs.Names) == 1 && vs.Names[0].Name == "RestrictedSettings" && len(vs.Values) == 1 {
						if cl, ok := vs.Values[0].(*ast.CompositeLit); ok {
							for _, el := range cl.Elts {
								if kv, ok := el.(*ast.KeyValueExpr); ok {
									if v, ok := evalConst(kv.Key, nil, 0); ok {
										out.Restricted = append(out.Restricted, v)
									} else {
										fail("RestrictedSettings: key at %s not evaluable", pos(kv))
									}
								}
							}
						}
					}
				}
			}
		}
	}

	sort.Strings(out.Settings)
	sort.Strings(out.Restricted)
	out.Settings = uniq(out.Settings)

	if v, ok := consts["ElidedPassword"]; ok {
		out.Elided = v
	} else {
		fail("defs.ElidedPassword not found")
	}
}

func uniq(l []string) []string {
	res := []string{}
	for i, s := range l {
		if i == 0 || s != l[i-1] {
			res = append(res, s)
		}
	}

	return res
}

func loadTypes(pkg string, files []*ast.File) {
	if types[pkg] == nil {
		types[pkg] = map[string]*ast.StructType{}
		alias[pkg] = map[string]ast.Expr{}
	}

	for _, f := range files {
		for _, d := range f.Decls {
			g, ok := d.(*ast.GenDecl)
			if !ok || g.Tok != token.TYPE {
				continue
			}

			for _, s := range g.Specs {
				ts := s.(*ast.TypeSpec)
				if st, ok := ts.Type.(*ast.StructType); ok {
					types[pkg][ts.Name.Name] = st
				} else {
					alias[pkg][ts.Name.Name] = ts.Type
				}
			}
		}
	}
}

// ---------------------------------------------------------------- (a) elision rules

type condCtx struct {
	file    *ast.File
	funcs   map[string]*ast.FuncDecl
	lowered bool
}

func isIdent(e ast.Expr, name string) bool {
	id, ok := e.(*ast.Ident)
	return ok && id.Name == name
}

func isSel(e ast.Expr, pkg, name string) bool {
	s, ok := e.(*ast.SelectorExpr)
	return ok && isIdent(s.X, pkg) && s.Sel.Name == name
}

func asciiPrintable(s string) bool {
	for _, c := range s {
		if c < 0x20 || c > 0x7e || c == '"' || c == '\\' {
			return false
		}
	}

	return s != ""
}

func lit(e ast.Expr) (string, bool) {
	v, ok := evalConst(e, nil, 0)
	if !ok || !asciiPrintable(v) {
		return "", false
	}

	return v, true
}

// cond translates a boolean expression over the string variable `v` into rules (a disjunction).
func (c *condCtx) cond(e ast.Expr, v string, depth int) ([]Rule, bool) {
	if depth > 8 {
		return nil, false
	}

	switch x := e.(type) {
	case *ast.ParenExpr:
		return c.cond(x.X, v, depth)
	case *ast.BinaryExpr:
		if x.Op != token.LOR {
			return nil, false
		}

		a, ok1 := c.cond(x.X, v, depth)
		b, ok2 := c.cond(x.Y, v, depth)

		return append(a, b...), ok1 && ok2
	case *ast.CallExpr:
		switch {
		case (isSel(x.Fun, "util", "InList") || isSel(x.Fun, "util", "InListInsensitive")) && len(x.Args) >= 2 && isIdent(x.Args[0], v) && !c.lowered:
			res := []Rule{}

			for _, a := range x.Args[1:] {
				s, ok := lit(a)
				if !ok {
					return nil, false
				}

				res = append(res, Rule{"eqfold", s})
			}

			return res, true
		case isSel(x.Fun, "strings", "Contains") && len(x.Args) == 2:
			s, ok := lit(x.Args[1])
			if !ok {
				return nil, false
			}

			if isIdent(x.Args[0], v) {
				if c.lowered {
					return []Rule{{"containslower", s}}, true
				}

				return []Rule{{"contains", s}}, true
			}

			if in, ok := x.Args[0].(*ast.CallExpr); ok && isSel(in.Fun, "strings", "ToLower") && len(in.Args) == 1 && isIdent(in.Args[0], v) {
				return []Rule{{"containslower", s}}, true
			}
		default:
			// a call of a one-argument predicate of the same package: inline it
			if id, ok := x.Fun.(*ast.Ident); ok && len(x.Args) == 1 && isIdent(x.Args[0], v) && !c.lowered {
				if fd, ok := c.funcs[id.Name]; ok {
					return c.predicate(fd, depth+1)
				}
			}
		}
	}

	return nil, false
}

// predicate translates `func f(p string) bool { [if cond {return true}]* [p = strings.ToLower(p)] … return cond|false }`.
func (c *condCtx) predicate(fd *ast.FuncDecl, depth int) ([]Rule, bool) {
	if fd.Body == nil || fd.Type.Params == nil || len(fd.Type.Params.List) != 1 || len(fd.Type.Params.List[0].Names) != 1 ||
		fd.Type.Results == nil || len(fd.Type.Results.List) != 1 || !isIdent(fd.Type.Results.List[0].Type, "bool") {
		return nil, false
	}

	p := fd.Type.Params.List[0].Names[0].Name
	sub := &condCtx{file: c.file, funcs: c.funcs}
	rules := []Rule{}
	n := len(fd.Body.List)

	for i, st := range fd.Body.List {
		switch s := st.(type) {
		case *ast.IfStmt:
			if s.Init != nil || s.Else != nil || len(s.Body.List) != 1 {
				return nil, false
			}

			r, ok := s.Body.List[0].(*ast.ReturnStmt)
			if !ok || len(r.Results) != 1 || !isIdent(r.Results[0], "true") {
				return nil, false
			}

			rs, ok := sub.cond(s.Cond, p, depth)
			if !ok {
				return nil, false
			}

			rules = append(rules, rs...)
		case *ast.AssignStmt:
			if len(s.Lhs) == 1 && len(s.Rhs) == 1 && s.Tok == token.ASSIGN && isIdent(s.Lhs[0], p) {
				if in, ok := s.Rhs[0].(*ast.CallExpr); ok && isSel(in.Fun, "strings", "ToLower") && len(in.Args) == 1 && isIdent(in.Args[0], p) {
					sub.lowered = true
					continue
				}
			}

			return nil, false
		case *ast.ReturnStmt:
			if i != n-1 || len(s.Results) != 1 {
				return nil, false
			}

			if isIdent(s.Results[0], "false") {
				return rules, true
			}

			rs, ok := sub.cond(s.Results[0], p, depth)

			return append(rules, rs...), ok
		default:
			return nil, false
		}
	}

	return nil, false
}

func extractConfig(root string) {
	dir := filepath.Join(root, "internal/server/admin")
	files := parseDir(dir, nil)
	funcs := map[string]*ast.FuncDecl{}

	var cfg *ast.File

	for _, f := range files {
		if filepath.Base(fset.Position(f.Pos()).Filename) == "config.go" {
			cfg = f
		}

		for _, d := range f.Decls {
			if fd, ok := d.(*ast.FuncDecl); ok && fd.Recv == nil {
				funcs[fd.Name.Name] = fd
			}
		}
	}

	if cfg == nil {
		fail("internal/server/admin/config.go not found")
		return
	}

	for _, h := range []struct {
		name string
		dst  *[]Rule
	}{{"GetConfigHandler", &out.Single}, {"GetAllConfigHandler", &out.All}} {
		fd := funcs[h.name]
		if fd == nil {
			fail("%s not found", h.name)
			continue
		}

		rules, ok := handlerRules(fd, &condCtx{file: cfg, funcs: funcs})
		if !ok {
			fail("%s: the elision logic has a shape the extractor does not understand", h.name)
			continue
		}

		*h.dst = rules
	}
}

// handlerRules finds `for _, item := range items { var value string; if C1 {value = defs.ElidedPassword} else if … else {value = settings.Get(item)} … }`
// and checks that no other statement of the function reads a setting value.
func handlerRules(fd *ast.FuncDecl, c *condCtx) ([]Rule, bool) {
	var loop *ast.RangeStmt

	gets := 0

	ast.Inspect(fd.Body, func(n ast.Node) bool {
		switch x := n.(type) {
		case *ast.RangeStmt:
			if loop == nil && isIdent(x.X, "items") {
				loop = x
			}
		case *ast.CallExpr:
			if s, ok := x.Fun.(*ast.SelectorExpr); ok && isIdent(s.X, "settings") && strings.HasPrefix(s.Sel.Name, "Get") {
				gets++
			}
		}

		return true
	})

	if loop == nil || loop.Value == nil || gets != 1 {
		fail("%s: expected one range over items and exactly one settings.Get* call (found %d)", fd.Name.Name, gets)
		return nil, false
	}

	item := loop.Value.(*ast.Ident).Name

	var chain *ast.IfStmt

	for _, st := range loop.Body.List {
		if s, ok := st.(*ast.IfStmt); ok && chain == nil {
			chain = s
		}
	}

	if chain == nil {
		return nil, false
	}

	rules := []Rule{}

	isAssign := func(b *ast.BlockStmt, check func(ast.Expr) bool) bool {
		if len(b.List) != 1 {
			return false
		}

		a, ok := b.List[0].(*ast.AssignStmt)

		return ok && len(a.Lhs) == 1 && len(a.Rhs) == 1 && isIdent(a.Lhs[0], "value") && check(a.Rhs[0])
	}

	for cur := chain; ; {
		if cur.Init != nil || !isAssign(cur.Body, func(e ast.Expr) bool { return isSel(e, "defs", "ElidedPassword") }) {
			return nil, false
		}

		rs, ok := c.cond(cur.Cond, item, 0)
		if !ok {
			fail("%s: condition at %s not understood", fd.Name.Name, pos(cur.Cond))
			return nil, false
		}

		rules = append(rules, rs...)

		switch e := cur.Else.(type) {
		case *ast.IfStmt:
			cur = e
			continue
		case *ast.BlockStmt:
			if !isAssign(e, func(x ast.Expr) bool {
				call, ok := x.(*ast.CallExpr)
				return ok && isSel(call.Fun, "settings", "Get") && len(call.Args) == 1 && isIdent(call.Args[0], item)
			}) {
				return nil, false
			}

			return rules, true
		default:
			return nil, false
		}
	}
}

// ---------------------------------------------------------------- (c) response sites

func secretField(goName, jsonName string) bool {
	for _, n := range []string{strings.ToLower(goName), strings.ToLower(jsonName)} {
		if strings.Contains(n, "password") || strings.Contains(n, "secret") || strings.Contains(n, "private") ||
			strings.Contains(n, "tokenkey") || strings.Contains(n, "token_key") || strings.Contains(n, "signingkey") {
			return true
		}
	}

	return jsonName == "d" // private scalar of a JWK
}

func jsonName(f *ast.Field, goName string) (string, bool) {
	if f.Tag == nil {
		return goName, true
	}

	tag, _ := strconv.Unquote(f.Tag.Value)

	j, ok := reflect.StructTag(tag).Lookup("json")
	if !ok {
		return goName, true
	}

	name := strings.Split(j, ",")[0]
	if name == "-" {
		return "", false
	}

	if name == "" {
		name = goName
	}

	return name, true
}

type fnCtx struct {
	pkg  string
	file string
	fd   *ast.FuncDecl
	sink ast.Node
}

// structOf resolves a type expression to a struct declaration (through pointers); elem reports slice/map-of.
func structOf(pkg string, t ast.Expr) (st *ast.StructType, spkg, name string, container bool) {
	switch x := t.(type) {
	case *ast.StarExpr:
		return structOf(pkg, x.X)
	case *ast.ArrayType:
		st, spkg, name, _ = structOf(pkg, x.Elt)
		return st, spkg, name, true
	case *ast.MapType:
		st, spkg, name, _ = structOf(pkg, x.Value)
		return st, spkg, name, true
	case *ast.Ident:
		if s, ok := types[pkg][x.Name]; ok {
			return s, pkg, x.Name, false
		}

		if a, ok := alias[pkg][x.Name]; ok {
			return structOf(pkg, a)
		}
	case *ast.SelectorExpr:
		if p, ok := x.X.(*ast.Ident); ok {
			if s, ok := types[p.Name][x.Sel.Name]; ok {
				return s, p.Name, x.Sel.Name, false
			}

			if a, ok := alias[p.Name][x.Sel.Name]; ok {
				return structOf(p.Name, a)
			}
		}
	}

	return nil, "", "", false
}

// assignments to `name` (whole variable) and to `name.Field` lexically before `before`, in source order.
type asg struct {
	field string // "" = whole variable
	rhs   ast.Expr
	multi bool // one of several results of a call / range variable
	pos   token.Pos
}

func (c *fnCtx) assignments(name string, before token.Pos) []asg {
	res := []asg{}

	ast.Inspect(c.fd.Body, func(n ast.Node) bool {
		switch s := n.(type) {
		case *ast.AssignStmt:
			if s.Pos() >= before {
				return false
			}

			for i, l := range s.Lhs {
				switch lx := l.(type) {
				case *ast.Ident:
					if lx.Name == name {
						if len(s.Rhs) == len(s.Lhs) {
							res = append(res, asg{"", s.Rhs[i], false, s.Pos()})
						} else {
							res = append(res, asg{"", s.Rhs[0], true, s.Pos()})
						}
					}
				case *ast.SelectorExpr:
					if isIdent(lx.X, name) && len(s.Rhs) == len(s.Lhs) {
						res = append(res, asg{lx.Sel.Name, s.Rhs[i], false, s.Pos()})
					}
				case *ast.IndexExpr:
					if isIdent(lx.X, name) && len(s.Rhs) == len(s.Lhs) {
						res = append(res, asg{"[]", s.Rhs[i], false, s.Pos()})
					}
				}
			}
		case *ast.RangeStmt:
			if s.Pos() < before {
				for _, v := range []ast.Expr{s.Key, s.Value} {
					if v != nil && isIdent(v, name) {
						res = append(res, asg{"", s.X, true, s.Pos()})
					}
				}
			}
		case *ast.DeclStmt:
			if g, ok := s.Decl.(*ast.GenDecl); ok && s.Pos() < before {
				for _, sp := range g.Specs {
					if vs, ok := sp.(*ast.ValueSpec); ok {
						for i, n := range vs.Names {
							if n.Name == name {
								if i < len(vs.Values) {
									res = append(res, asg{"", vs.Values[i], false, s.Pos()})
								} else if vs.Type != nil {
									res = append(res, asg{"", &ast.CompositeLit{Type: vs.Type}, false, s.Pos()})
								}
							}
						}
					}
				}
			}
		}

		return true
	})

	// parameters
	if c.fd.Type.Params != nil {
		for _, f := range c.fd.Type.Params.List {
			for _, n := range f.Names {
				if n.Name == name {
					res = append([]asg{{"", nil, true, c.fd.Pos()}}, res...)
				}
			}
		}
	}

	return res
}

func isConstString(e ast.Expr) bool {
	if isSel(e, "defs", "ElidedPassword") {
		return true
	}

	if b, ok := e.(*ast.BasicLit); ok && b.Kind == token.STRING {
		return true
	}

	return false
}

// leafDisp classifies the expression stored into a leaf (non-struct) field.
func (c *fnCtx) leafDisp(e ast.Expr, secret bool) (string, string) {
	if e == nil {
		return "omitted", ""
	}

	if isConstString(e) {
		return "elided", ""
	}

	if !secret {
		return "copied", ""
	}

	return "raw", "secret-typed field filled from " + exprString(e) + " at " + pos(e)
}

func exprString(e ast.Expr) string {
	switch x := e.(type) {
	case *ast.Ident:
		return x.Name
	case *ast.SelectorExpr:
		return exprString(x.X) + "." + x.Sel.Name
	case *ast.CallExpr:
		return exprString(x.Fun) + "(…)"
	case *ast.IndexExpr:
		return exprString(x.X) + "[…]"
	}

	return fmt.Sprintf("%T", e)
}

// value analyses expression e of declared type t (in package pkg) and appends the leaves below `path`.
func (c *fnCtx) value(e ast.Expr, pkg string, t ast.Expr, path, jname string, secret bool, before token.Pos, depth int, leaves *[]Leaf) {
	if depth > 12 {
		fail("%s: nesting too deep at %s", c.fd.Name.Name, path)
		return
	}

	st, spkg, _, container := structOf(pkg, t)
	if st == nil {
		// map[string]any literal: keys are the JSON names
		if id, ok := e.(*ast.Ident); ok {
			if _, isMap := t.(*ast.MapType); isMap {
				for _, a := range c.assignments(id.Name, before) {
					if cl, ok := a.rhs.(*ast.CompositeLit); ok && a.field == "" && !a.multi {
						e = cl
					}
				}
			}
		}

		if cl, ok := e.(*ast.CompositeLit); ok {
			if _, isMap := cl.Type.(*ast.MapType); isMap || cl.Type == nil {
				c.mapLit(cl, pkg, path, before, depth, leaves)
				return
			}
		}

		d, why := c.leafDisp(e, secret)
		*leaves = append(*leaves, Leaf{path, jname, secret, d, why})

		return
	}

	if container {
		c.elements(e, spkg, st, path, before, depth, leaves)
		return
	}

	c.structValue(e, spkg, st, path, before, depth, leaves)
}

func (c *fnCtx) mapLit(cl *ast.CompositeLit, pkg, path string, before token.Pos, depth int, leaves *[]Leaf) {
	for _, el := range cl.Elts {
		switch x := el.(type) {
		case *ast.KeyValueExpr:
			k, ok := evalConst(x.Key, nil, 0)
			if !ok {
				fail("%s: map key at %s is not a constant", c.fd.Name.Name, pos(x.Key))
				continue
			}

			p := path + "." + k
			sec := secretField(k, k)

			if inner, ok := x.Value.(*ast.CompositeLit); ok {
				c.mapLit(inner, pkg, p, before, depth+1, leaves)
			} else {
				d, why := c.leafDisp(x.Value, sec)
				*leaves = append(*leaves, Leaf{p, k, sec, d, why})
			}
		case *ast.CompositeLit:
			c.mapLit(x, pkg, path+"[]", before, depth+1, leaves)
		default:
			d, why := c.leafDisp(el, false)
			*leaves = append(*leaves, Leaf{path + "[]", "", false, d, why})
		}
	}
}

func fieldsOf(st *ast.StructType) []*ast.Field { return st.Fields.List }

// structValue: e has struct type st (declared in package spkg).
func (c *fnCtx) structValue(e ast.Expr, spkg string, st *ast.StructType, path string, before token.Pos, depth int, leaves *[]Leaf) {
	given := map[string]ast.Expr{} // field → expression; missing = zero value
	opaque := false                // the struct came from somewhere we cannot see into
	opaqueWhy := ""

	var apply func(e ast.Expr, before token.Pos, d int)

	apply = func(e ast.Expr, before token.Pos, d int) {
		if d > 6 {
			opaque, opaqueWhy = true, "definition chain too long"
			return
		}

		switch x := e.(type) {
		case *ast.UnaryExpr:
			apply(x.X, before, d)
		case *ast.StarExpr:
			apply(x.X, before, d)
		case *ast.CompositeLit:
			for _, el := range x.Elts {
				kv, ok := el.(*ast.KeyValueExpr)
				if !ok {
					opaque, opaqueWhy = true, "positional composite literal at "+pos(el)
					return
				}

				given[kv.Key.(*ast.Ident).Name] = kv.Value
			}
		case *ast.Ident:
			as := c.assignments(x.Name, before)
			if len(as) == 0 {
				opaque, opaqueWhy = true, "no definition of "+x.Name
				return
			}

			// last whole-variable definition, then the field stores after it
			last := -1

			for i, a := range as {
				if a.field == "" {
					last = i
				}
			}

			if last < 0 {
				opaque, opaqueWhy = true, "no whole definition of "+x.Name
			} else if as[last].multi || as[last].rhs == nil {
				opaque, opaqueWhy = true, x.Name+" comes from "+exprStringOrParam(as[last].rhs)
			} else {
				apply(as[last].rhs, as[last].pos, d+1)
			}

			for _, a := range as[last+1:] {
				if a.field != "" && a.field != "[]" {
					given[a.field] = a.rhs
				}
			}
		default:
			opaque, opaqueWhy = true, "value is "+exprString(e)+" at "+pos(e)
		}
	}

	apply(e, before, 0)

	for _, f := range fieldsOf(st) {
		names := []string{}
		for _, n := range f.Names {
			names = append(names, n.Name)
		}

		embedded := len(names) == 0
		if embedded {
			switch t := f.Type.(type) {
			case *ast.Ident:
				names = []string{t.Name}
			case *ast.SelectorExpr:
				names = []string{t.Sel.Name}
			case *ast.StarExpr:
				names = []string{exprString(t.X)}
			}
		}

		for _, n := range names {
			if !ast.IsExported(n) {
				continue
			}

			jn, visible := jsonName(f, n)
			if !visible {
				continue
			}

			sec := secretField(n, jn)
			p := path + "." + n
			val, has := given[n]

			inner, ipkg, _, cont := structOf(spkg, f.Type)

			switch {
			case has && inner != nil && !cont:
				c.structValue(val, ipkg, inner, p, before, depth+1, leaves)
			case has && inner != nil && cont:
				c.elements(val, ipkg, inner, p, before, depth+1, leaves)
			case has:
				c.value(val, spkg, f.Type, p, jn, sec, before, depth+1, leaves)
			case opaque && inner != nil:
				// unseen nested struct of an opaque value
				c.opaqueStruct(ipkg, inner, p, opaqueWhy, depth+1, leaves)
			case opaque:
				d, why := "copied", ""
				if sec {
					d, why = "raw", "secret-typed field of a value the handler did not build or overwrite: "+opaqueWhy
				}

				*leaves = append(*leaves, Leaf{p, jn, sec, d, why})
			default:
				*leaves = append(*leaves, Leaf{p, jn, sec, "omitted", ""})
			}
		}
	}
}

func exprStringOrParam(e ast.Expr) string {
	if e == nil {
		return "a parameter"
	}

	return exprString(e)
}

func (c *fnCtx) opaqueStruct(spkg string, st *ast.StructType, path, why string, depth int, leaves *[]Leaf) {
	if depth > 12 {
		return
	}

	for _, f := range fieldsOf(st) {
		for _, n := range f.Names {
			if !ast.IsExported(n.Name) {
				continue
			}

			jn, visible := jsonName(f, n.Name)
			if !visible {
				continue
			}

			if inner, ipkg, _, _ := structOf(spkg, f.Type); inner != nil {
				c.opaqueStruct(ipkg, inner, path+"."+n.Name, why, depth+1, leaves)
				continue
			}

			sec := secretField(n.Name, jn)
			d, w := "copied", ""

			if sec {
				d, w = "raw", "secret-typed field of an opaque value: "+why
			}

			*leaves = append(*leaves, Leaf{path + "." + n.Name, jn, sec, d, w})
		}
	}
}

// sanitizers: service methods whose every implementation overwrites the secret field of each element it returns.
var sanitizers = map[string]bool{}

// elements: e is a slice/map of struct st; find what flows into it.
func (c *fnCtx) elements(e ast.Expr, spkg string, st *ast.StructType, path string, before token.Pos, depth int, leaves *[]Leaf) {
	path += "[]"

	var sources []ast.Expr

	seen := map[string]bool{}
	unknown := ""

	var follow func(e ast.Expr, before token.Pos, d int)

	follow = func(e ast.Expr, before token.Pos, d int) {
		if d > 8 {
			unknown = "flow too long"
			return
		}

		switch x := e.(type) {
		case *ast.CompositeLit:
			for _, el := range x.Elts {
				if kv, ok := el.(*ast.KeyValueExpr); ok {
					sources = append(sources, kv.Value)
				} else {
					sources = append(sources, el)
				}
			}
		case *ast.SliceExpr:
			follow(x.X, before, d+1)
		case *ast.CallExpr:
			if isIdent(x.Fun, "make") {
				return
			}

			if isIdent(x.Fun, "append") && len(x.Args) >= 1 {
				follow(x.Args[0], before, d+1)
				sources = append(sources, x.Args[1:]...)

				return
			}

			unknown = "elements come from " + exprString(x)
		case *ast.Ident:
			if seen[x.Name] {
				return
			}

			seen[x.Name] = true

			as := c.assignments(x.Name, c.sink.Pos())
			if len(as) == 0 {
				unknown = "no definition of " + x.Name
				return
			}

			for _, a := range as {
				switch {
				case a.field == "[]":
					sources = append(sources, a.rhs)
				case a.field != "":
				case a.multi || a.rhs == nil:
					unknown = x.Name + " comes from " + exprStringOrParam(a.rhs)
				default:
					follow(a.rhs, a.pos, d+1)
				}
			}
		default:
			unknown = "elements are " + exprString(e)
		}
	}

	follow(e, before, 0)

	if unknown != "" {
		c.opaqueStruct(spkg, st, path, unknown, depth+1, leaves)
		return
	}

	if len(sources) == 0 {
		c.structValue(&ast.CompositeLit{}, spkg, st, path, before, depth+1, leaves)
		return
	}

	merged := map[string]Leaf{}
	order := []string{}

	for _, s := range sources {
		var ls []Leaf

		// names[key] where names is the result of a sanitizing service method
		if ix, ok := s.(*ast.IndexExpr); ok {
			if id, ok := ix.X.(*ast.Ident); ok {
				as := c.assignments(id.Name, c.sink.Pos())
				if len(as) == 1 && as[0].multi {
					if call, ok := as[0].rhs.(*ast.CallExpr); ok {
						if sel, ok := call.Fun.(*ast.SelectorExpr); ok && sanitizers[sel.Sel.Name] {
							c.opaqueStruct(spkg, st, path, "", depth+1, &ls)

							for i := range ls {
								if ls[i].Secret {
									ls[i].Disp, ls[i].Why = "sanitized", "every implementation of "+sel.Sel.Name+" overwrites the field with a constant"
								}
							}
						}
					}
				}
			}
		}

		if ls == nil {
			c.structValue(s, spkg, st, path, c.sink.Pos(), depth+1, &ls)
		}

		for _, l := range ls {
			old, ok := merged[l.Path]
			if !ok {
				order = append(order, l.Path)
				merged[l.Path] = l

				continue
			}

			rank := map[string]int{"omitted": 0, "elided": 1, "sanitized": 2, "copied": 3, "raw": 4}
			if rank[l.Disp] > rank[old.Disp] {
				merged[l.Path] = l
			}
		}
	}

	for _, p := range order {
		*leaves = append(*leaves, merged[p])
	}
}

// checkSanitizer: every method named `name` in dir assigns `<x>.<field> = <constant string>` (and nothing else to that field).
func checkSanitizer(root, dir, name, field string) {
	n := 0

	for _, f := range parseDir(filepath.Join(root, dir), nil) {
		for _, d := range f.Decls {
			fd, ok := d.(*ast.FuncDecl)
			if !ok || fd.Recv == nil || fd.Name.Name != name || fd.Body == nil {
				continue
			}

			n++

			good, bad := 0, 0

			ast.Inspect(fd.Body, func(nd ast.Node) bool {
				switch s := nd.(type) {
				case *ast.AssignStmt:
					for i, l := range s.Lhs {
						if sel, ok := l.(*ast.SelectorExpr); ok && sel.Sel.Name == field && len(s.Rhs) == len(s.Lhs) {
							if isConstString(s.Rhs[i]) {
								good++
							} else {
								bad++
							}
						}
					}
				case *ast.ReturnStmt:
					// returning a store field directly (return f.Data, nil) bypasses the overwrite
					for _, r := range s.Results {
						if sel, ok := r.(*ast.SelectorExpr); ok && !isIdent(sel.X, "errors") {
							bad++
						}
					}
				}

				return true
			})

			if good == 0 || bad != 0 {
				fail("%s.%s (%s): does not overwrite .%s of every returned element with a constant", dir, name, pos(fd), field)
				return
			}
		}
	}

	if n == 0 {
		fail("no implementation of %s found in %s", name, dir)
		return
	}

	sanitizers[name] = true
	out.Sanitizers = append(out.Sanitizers, fmt.Sprintf("%s.%s overwrites .%s (%d implementations)", dir, name, field, n))
}

func extractSites(root, dir, pkg string, only func(string) bool) {
	files := parseDir(filepath.Join(root, dir), only)
	loadTypes(pkg, parseDir(filepath.Join(root, dir), nil))

	for _, f := range files {
		fname := filepath.Join(dir, filepath.Base(fset.Position(f.Pos()).Filename))

		for _, d := range f.Decls {
			fd, ok := d.(*ast.FuncDecl)
			if !ok || fd.Body == nil {
				continue
			}

			// blocks guarded by ui.IsActive(…): log-only
			logOnly := [][2]token.Pos{}

			ast.Inspect(fd.Body, func(n ast.Node) bool {
				if s, ok := n.(*ast.IfStmt); ok {
					if call, ok := s.Cond.(*ast.CallExpr); ok && isSel(call.Fun, "ui", "IsActive") {
						logOnly = append(logOnly, [2]token.Pos{s.Body.Pos(), s.Body.End()})
					}
				}

				return true
			})

			ast.Inspect(fd.Body, func(n ast.Node) bool {
				call, ok := n.(*ast.CallExpr)
				if !ok {
					return true
				}

				var arg ast.Expr

				switch {
				case isSel(call.Fun, "util", "WriteJSON") && len(call.Args) == 4:
					arg = call.Args[3]
				case (isSel(call.Fun, "json", "Marshal") || isSel(call.Fun, "json", "MarshalIndent")) && len(call.Args) >= 1:
					arg = call.Args[0]
				default:
					if s, ok := call.Fun.(*ast.SelectorExpr); ok && s.Sel.Name == "Encode" && len(call.Args) == 1 {
						if in, ok := s.X.(*ast.CallExpr); ok && isSel(in.Fun, "json", "NewEncoder") {
							arg = call.Args[0]
						}
					}
				}

				if arg == nil {
					return true
				}

				site := Site{File: fname, Func: fd.Name.Name, Line: fset.Position(call.Pos()).Line}

				for _, r := range logOnly {
					if call.Pos() >= r[0] && call.End() <= r[1] {
						site.LogOnly = true
					}
				}

				c := &fnCtx{pkg: pkg, file: fname, fd: fd, sink: call}
				t := c.typeOf(arg)

				if t == nil {
					fail("%s %s:%d: cannot determine the type of the response value %s", fname, fd.Name.Name, site.Line, exprString(arg))
					out.Sites = append(out.Sites, site)

					return true
				}

				site.Type = typeString(t)
				c.value(arg, pkg, t, "$", "", false, call.Pos(), 0, &site.Leaves)
				out.Sites = append(out.Sites, site)

				return true
			})
		}
	}
}

func typeString(t ast.Expr) string {
	switch x := t.(type) {
	case *ast.Ident:
		return x.Name
	case *ast.SelectorExpr:
		return exprString(x)
	case *ast.ArrayType:
		return "[]" + typeString(x.Elt)
	case *ast.MapType:
		return "map[" + typeString(x.Key) + "]" + typeString(x.Value)
	case *ast.StarExpr:
		return "*" + typeString(x.X)
	case *ast.InterfaceType:
		return "any"
	}

	return fmt.Sprintf("%T", t)
}

// typeOf: the declared type of the response expression (composite literal type, var type, or parameter type).
func (c *fnCtx) typeOf(e ast.Expr) ast.Expr {
	switch x := e.(type) {
	case *ast.CompositeLit:
		return x.Type
	case *ast.UnaryExpr:
		return c.typeOf(x.X)
	case *ast.Ident:
		if c.fd.Type.Params != nil {
			for _, f := range c.fd.Type.Params.List {
				for _, n := range f.Names {
					if n.Name == x.Name {
						return f.Type
					}
				}
			}
		}

		as := c.assignments(x.Name, c.sink.Pos())
		for _, a := range as {
			if a.field == "" && !a.multi && a.rhs != nil {
				if t := c.typeOf(a.rhs); t != nil {
					return t
				}
			}
		}
	}

	return nil
}

func main() {
	if len(os.Args) != 2 {
		fmt.Fprintln(os.Stderr, "usage: extract_c44 <repo root>")
		os.Exit(2)
	}

	root := os.Args[1]

	loadDefs(root)
	loadTypes("defs", parseDir(filepath.Join(root, "internal/defs"), nil))
	extractConfig(root)

	checkSanitizer(root, "internal/dsns", "ListDSNS", "Password")

	notTest := func(string) bool { return true }
	extractSites(root, "internal/server/admin/users", "users", notTest)
	extractSites(root, "internal/server/dsns", "dsns", func(n string) bool { return n == "handler.go" })
	extractSites(root, "internal/server/oauth/authserver", "authserver", notTest)

	sort.Strings(out.Errors)

	enc := json.NewEncoder(os.Stdout)
	enc.SetIndent("", " ")
	_ = enc.Encode(out)
}
