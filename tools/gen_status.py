#!/usr/bin/env python3
"""Regenerate the 'As built' status table in DESIGN.md (between the STATUS markers) from
checks/*.py META, known_findings*.json, seeded/*/meta.json and evidence/*.json."""
import glob, importlib, json, os, re, sys
here = os.path.dirname(os.path.dirname(os.path.abspath(__file__)))
sys.path.insert(0, here)
props = [json.loads(l) for l in open(os.path.join(here, "properties.jsonl")) if l.strip()]
kf = json.load(open(os.path.join(here, "known_findings.json")))
findings = list(kf.get("findings", []))
for f in sorted(glob.glob(os.path.join(here, "known_findings.d", "*.json"))):
    findings += json.load(open(f))
fixed = kf.get("fixed", [])
seeded = {}
for m in sorted(glob.glob(os.path.join(here, "seeded", "*", "meta.json"))):
    d = json.load(open(m))
    seeded.setdefault(d["property"], []).append((os.path.basename(os.path.dirname(m)), d))
rows = ["| id | status | theorems (required) | defects on the pinned tree | seeded changes (caught / total) |", "| --- | --- | --- | --- | --- |"]
for p in props:
    pid = p["id"]
    path = os.path.join(here, "checks", pid + ".py")
    if not os.path.exists(path):
        rows.append(f"| {pid} | not claimed | — | — | — |")
        continue
    src = open(path).read()
    req = re.findall(r'"(%s_[A-Za-z0-9_]+)"' % pid, src)
    req = sorted(set(req))
    meta = importlib.import_module("checks." + pid).META
    partial = "PARTIAL" in meta["text"][:12] or meta["level"] != "proof"
    fx = [f for f in fixed if f["property"] == pid or pid in f.get("also", [])]
    fn = [f for f in findings if f["property"] == pid]
    classes = sorted(set(f["class"].split(":")[0] for f in fn))
    dtxt = "; ".join(["fixed %s" % f["commit"] for f in fx] + (["known: " + ", ".join(classes[:6]) + (" …" if len(classes) > 6 else "")] if fn else [])) or "none found"
    sd = seeded.get(pid, [])
    caught = sum(1 for _, d in sd if d.get("caught_by"))
    stxt = "%d / %d" % (caught, len(sd)) if sd else "—"
    rows.append(f"| {pid} | {'partial' if partial else 'proof'} | {', '.join(req[:6])}{' …' if len(req) > 6 else ''} | {dtxt} | {stxt} |")
table = "\n".join(rows)
p = os.path.join(here, "DESIGN.md")
s = open(p).read()
a, b = "<!-- STATUS:BEGIN -->", "<!-- STATUS:END -->"
if a in s:
    s = s[:s.index(a) + len(a)] + "\n" + table + "\n" + s[s.index(b):]
    open(p, "w").write(s)
srows = ["| seed | property | what the change does | needs, to manifest | confirmed by us | check verdict |", "| --- | --- | --- | --- | --- | --- |"]
for m in sorted(glob.glob(os.path.join(here, "seeded", "*", "meta.json"))):
    d = json.load(open(m))
    tag = os.path.basename(os.path.dirname(m))
    cr = d.get("check_result", {})
    if d.get("caught_by"):
        verdict = "caught by `%s`%s" % (d["caught_by"], " with a failing input" if cr.get("failing_input_found") else " (no failing input found)")
    else:
        verdict = "MISSED" + ((": " + d["missed_note"]) if d.get("missed_note") else "")
    if d.get("strengthened"):
        verdict += " — " + d["strengthened"]
    def cell(x):
        return str(x).replace("|", "\\|").replace("\n", " ")[:260]
    srows.append("| %s | %s | %s | %s | %s | %s |" % (tag, d["property"], cell(d.get("summary", "")), cell(d.get("needs", "")),
                 "yes" if d.get("confirmed_by_us", {}).get("all") else "NO: " + cell({k: v for k, v in d.get("confirmed_by_us", {}).items() if v is False}), cell(verdict)))
stable = "\n".join(srows)
s = open(p).read()
a, b = "<!-- SEEDED:BEGIN -->", "<!-- SEEDED:END -->"
if a in s:
    s = s[:s.index(a) + len(a)] + "\n" + stable + "\n" + s[s.index(b):]
    open(p, "w").write(s)
print(table)
