// extract_c07: T1 translator for C07. Walks the Go sources of a repository tree (go/ast only)
// and lists every RAW access to the token slice, the VM stack and their cursors that lies
// OUTSIDE the accessor functions modelled in lean/EgoVerif/C07/Model.lean:
//
//	index / slice expressions on  X.Tokens, X.stack  (and on local aliases `v := X.Tokens`)
//	writes (=, :=, op=, ++, --) to X.TokenP, X.stackPointer, X.framePointer
//
// Output: a Lean file defining `EgoVerif.C07.Gen.sites : List String` ("file|func|kind|expr",
// sorted, duplicates kept) and `Gen.modelledFound` (the modelled functions seen). Fails closed
// (exit 2) when a file does not parse.
package main

import (
	"bytes"
	"fmt"
	"go/ast"
	"go/parser"
	"go/printer"
	"go/token"
	"os"
	"path/filepath"
	"sort"
	"strings"
)

// file -> functions whose bodies are modelled (and covered by the T2 harness)
var modelled = map[string]map[string]bool{
	"internal/language/tokenizer/cursor.go":    {"Next": true, "NextText": true, "Peek": true, "PeekText": true, "AtEnd": true, "Advance": true, "IsNext": true, "AnyNext": true, "EndOfStatement": true, "CurrentLine": true, "CurrentColumn": true},
	"internal/language/tokenizer/mark.go":      {"Mark": true, "Set": true, "Reset": true},
	"internal/language/tokenizer/insert.go":    {"Delete": true, "Insert": true},
	"internal/language/tokenizer/line.go":      {"GetTokenText": true, "Remainder": true},
	"internal/language/tokenizer/tokenizer.go": {"GetTokens": true},
	"internal/language/bytecode/context.go":    {"push": true, "PopWithoutUnwrapping": true, "Pop": true},
	"internal/language/bytecode/callframe.go":  {"callFramePushWithTable": true, "callFramePush": true, "callFramePop": true},
	"internal/language/bytecode/stack.go":      {"readStackByteCode": true, "stackCheckByteCode": true, "dropByteCode": true, "dupByteCode": true, "swapByteCode": true},
}

var sliceFields = map[string]bool{"Tokens": true, "stack": true}
var cursorFields = map[string]bool{"TokenP": true, "stackPointer": true, "framePointer": true}

func text(fset *token.FileSet, n ast.Node) string {
	var b bytes.Buffer
	_ = printer.Fprint(&b, fset, n)

	return strings.Join(strings.Fields(b.String()), " ")
}

func main() {
	root := os.Args[1]

	var sites, found []string

	fset := token.NewFileSet()

	err := filepath.Walk(filepath.Join(root, "internal"), func(p string, info os.FileInfo, err error) error {
		if err != nil {
			return err
		}

		if info.IsDir() || !strings.HasSuffix(p, ".go") || strings.HasSuffix(p, "_test.go") {
			return nil
		}

		rel, _ := filepath.Rel(root, p)
		if strings.HasPrefix(rel, "internal/verifh") {
			return nil
		}

		f, err := parser.ParseFile(fset, p, nil, parser.SkipObjectResolution)
		if err != nil {
			return fmt.Errorf("%s: %v", rel, err)
		}

		for _, d := range f.Decls {
			fd, ok := d.(*ast.FuncDecl)
			if !ok || fd.Body == nil {
				continue
			}

			name := fd.Name.Name
			if modelled[rel][name] {
				found = append(found, rel+"|"+name)

				continue
			}

			alias := map[string]bool{}
			isSlice := func(x ast.Expr) bool {
				switch v := x.(type) {
				case *ast.SelectorExpr:
					return sliceFields[v.Sel.Name]
				case *ast.Ident:
					return alias[v.Name]
				}

				return false
			}
			isCursor := func(x ast.Expr) bool {
				v, ok := x.(*ast.SelectorExpr)

				return ok && cursorFields[v.Sel.Name]
			}
			add := func(kind string, n ast.Node) {
				sites = append(sites, rel+"|"+name+"|"+kind+"|"+text(fset, n))
			}

			ast.Inspect(fd.Body, func(n ast.Node) bool {
				switch v := n.(type) {
				case *ast.AssignStmt:
					for i, l := range v.Lhs {
						if isCursor(l) {
							add("write", v)
						}

						if id, ok := l.(*ast.Ident); ok && i < len(v.Rhs) {
							if s, ok := v.Rhs[i].(*ast.SelectorExpr); ok && sliceFields[s.Sel.Name] {
								alias[id.Name] = true
							}
						}
					}
				case *ast.IncDecStmt:
					if isCursor(v.X) {
						add("write", v)
					}
				case *ast.IndexExpr:
					if isSlice(v.X) {
						add("index", v)
					}
				case *ast.SliceExpr:
					if isSlice(v.X) {
						add("slice", v)
					}
				}

				return true
			})
		}

		return nil
	})
	if err != nil {
		fmt.Fprintln(os.Stderr, "extract_c07:", err)
		os.Exit(2)
	}

	sort.Strings(sites)
	sort.Strings(found)

	out := func(name string, xs []string) {
		fmt.Printf("def %s : List String := [\n", name)

		for i, s := range xs {
			sep := ","
			if i == len(xs)-1 {
				sep = ""
			}

			fmt.Printf("  %q%s\n", s, sep)
		}

		fmt.Println("]")
	}

	fmt.Println("namespace EgoVerif.C07.Gen")
	out("sites", sites)
	out("modelledFound", found)
	fmt.Println("end EgoVerif.C07.Gen")
}
