module extract_c07

go 1.23
