// extract_c26: translator for property C26 (stdlib go/ast only).
//
// usage: go run ./tools/extract_c26 <repo root>   → Lean text on stdout
//
// It lists, from the CURRENT source of internal/runtime/**,
//  1. every call of a file-system sink (os.*, io/ioutil.*, path/filepath walkers, database/sql.Open)
//     inside a runtime function whose path argument is program-controlled, with a verdict whether
//     that argument is the result of the sandbox helper (sandboxName / util.SandboxJoin);
//  2. every native passthrough declaration (data.Function{Value: os.X, IsNative: true}) of a sink,
//     with a verdict whether the path parameter is flagged `Sandboxed: true` (the dispatcher
//     rewrites it) or the function is flagged Sandboxed (refused outright in a sandboxed context);
//  3. the dispatcher itself (bytecode.convertToNative rewrites flagged parameters through
//     sandboxName, which calls util.SandboxJoin) and each package's sandboxName helper.
//
// Taint: three labels, Clean < Routed < Raw.  `args` (data.List) and every string parameter are Raw;
// a call of sandboxName/SandboxJoin is Routed; every other expression has the maximum label of its
// operands (so `routed + raw` is Raw).  Assignments at the top level of a function body replace a
// variable's label, assignments in nested blocks can only raise it.  Syntax the walker does not know
// is Raw (fail closed).  Paths with label Clean (configuration, environment) are not listed.
package main

import (
	"fmt"
	"go/ast"
	"go/parser"
	"go/token"
	"os"
	"path/filepath"
	"sort"
	"strconv"
	"strings"
)

const (
	clean = iota
	routed
	raw
)

var sinks = map[string]map[string][]int{
	"os": {"Open": {0}, "OpenFile": {0}, "Create": {0}, "ReadFile": {0}, "WriteFile": {0}, "ReadDir": {0}, "Stat": {0},
		"Lstat": {0}, "Chmod": {0}, "Chown": {0}, "Lchown": {0}, "Chtimes": {0}, "Mkdir": {0}, "MkdirAll": {0},
		"MkdirTemp": {0}, "CreateTemp": {0}, "Remove": {0}, "RemoveAll": {0}, "Rename": {0, 1}, "Link": {0, 1},
		"Symlink": {0, 1}, "Readlink": {0}, "Truncate": {0}, "Chdir": {0}, "DirFS": {0}, "CopyFS": {0}},
	"io/ioutil":     {"ReadFile": {0}, "WriteFile": {0}, "ReadDir": {0}, "TempFile": {0}, "TempDir": {0}},
	"path/filepath": {"Walk": {0}, "WalkDir": {0}, "Glob": {0}, "EvalSymlinks": {0}},
	"database/sql":  {"Open": {1}},
}

// functions of the sink packages that take no file path (native passthroughs of these are fine)
var notFile = map[string]bool{"os.Getenv": true, "os.Setenv": true, "os.Unsetenv": true, "os.Clearenv": true, "os.Environ": true,
	"os.ExpandEnv": true, "os.LookupEnv": true, "os.Hostname": true, "os.Executable": true, "os.TempDir": true, "os.Getpid": true,
	"os.Getuid": true, "os.Getwd": true, "os.Exit": true, "os.UserHomeDir": true,
	"path/filepath.Abs": true, "path/filepath.Base": true, "path/filepath.Clean": true, "path/filepath.Dir": true,
	"path/filepath.Ext": true, "path/filepath.Join": true, "path/filepath.Rel": true, "path/filepath.Split": true,
	"path/filepath.IsAbs": true, "path/filepath.Match": true, "path/filepath.VolumeName": true,
	"path/filepath.ToSlash": true, "path/filepath.FromSlash": true}

type route struct {
	fn, sink string
	ok       bool
}

var (
	routes   []route
	problems []string
	config   int
)

func max(a, b int) int {
	if a > b {
		return a
	}

	return b
}

type walker struct {
	pkg     string
	fn      string
	imports map[string]string
	env     map[string]int
}

func calleeName(e ast.Expr) string {
	switch f := e.(type) {
	case *ast.Ident:
		return f.Name
	case *ast.SelectorExpr:
		return f.Sel.Name
	}

	return ""
}

func (w *walker) label(e ast.Expr) int {
	switch x := e.(type) {
	case nil:
		return clean
	case *ast.BasicLit:
		return clean
	case *ast.Ident:
		return w.env[x.Name]
	case *ast.CallExpr:
		if n := calleeName(x.Fun); n == "sandboxName" || n == "SandboxJoin" {
			return routed
		}

		l := clean
		if s, ok := x.Fun.(*ast.SelectorExpr); ok {
			l = w.label(s.X) // method on a tainted receiver; a package name is Clean
		}

		for _, a := range x.Args {
			l = max(l, w.label(a))
		}

		return l
	case *ast.BinaryExpr:
		return max(w.label(x.X), w.label(x.Y))
	case *ast.SelectorExpr:
		return w.label(x.X)
	case *ast.IndexExpr:
		return max(w.label(x.X), w.label(x.Index))
	case *ast.SliceExpr:
		return w.label(x.X)
	case *ast.StarExpr:
		return w.label(x.X)
	case *ast.UnaryExpr:
		return w.label(x.X)
	case *ast.ParenExpr:
		return w.label(x.X)
	case *ast.TypeAssertExpr:
		return w.label(x.X)
	case *ast.KeyValueExpr:
		return w.label(x.Value)
	case *ast.CompositeLit:
		l := clean
		for _, el := range x.Elts {
			l = max(l, w.label(el))
		}

		return l
	case *ast.FuncLit, *ast.ArrayType, *ast.MapType, *ast.InterfaceType, *ast.StructType, *ast.FuncType, *ast.ChanType:
		return clean
	}

	return raw // unknown syntax: fail closed
}

// scan records every sink call inside expression e.
func (w *walker) scan(e ast.Node) {
	if e == nil {
		return
	}

	ast.Inspect(e, func(n ast.Node) bool {
		if fl, ok := n.(*ast.FuncLit); ok {
			w.stmts(fl.Body.List, 1)

			return false
		}

		c, ok := n.(*ast.CallExpr)
		if !ok {
			return true
		}

		s, ok := c.Fun.(*ast.SelectorExpr)
		if !ok {
			return true
		}

		id, ok := s.X.(*ast.Ident)
		if !ok {
			return true
		}

		idx, ok := sinks[w.imports[id.Name]][s.Sel.Name]
		if !ok || w.env[id.Name] != clean { // (a local variable shadowing the package name is not the package)
			return true
		}

		for _, i := range idx {
			if i >= len(c.Args) {
				problems = append(problems, fmt.Sprintf("%s.%s: sink %s.%s called with too few arguments", w.pkg, w.fn, id.Name, s.Sel.Name))

				continue
			}

			switch w.label(c.Args[i]) {
			case clean:
				config++
			case routed:
				routes = append(routes, route{w.pkg + "." + w.fn, w.imports[id.Name] + "." + s.Sel.Name, true})
			default:
				routes = append(routes, route{w.pkg + "." + w.fn, w.imports[id.Name] + "." + s.Sel.Name, false})
			}
		}

		return true
	})
}

func (w *walker) assign(lhs []ast.Expr, rhs []ast.Expr, define bool, depth int) {
	for _, r := range rhs {
		w.scan(r)
	}

	for i, l := range lhs {
		id, ok := l.(*ast.Ident)
		if !ok || id.Name == "_" {
			continue
		}

		lbl := clean
		if len(rhs) == len(lhs) {
			lbl = w.label(rhs[i])
		} else if len(rhs) > 0 {
			lbl = w.label(rhs[0])
		}

		if depth == 0 {
			w.env[id.Name] = lbl
		} else if define {
			w.env[id.Name] = max(w.env[id.Name], lbl) // same-named outer variable: keep the worse label
		} else {
			w.env[id.Name] = max(w.env[id.Name], lbl)
		}
	}
}

func (w *walker) stmts(list []ast.Stmt, depth int) {
	for _, s := range list {
		w.stmt(s, depth)
	}
}

func (w *walker) stmt(s ast.Stmt, depth int) {
	switch x := s.(type) {
	case nil:
	case *ast.AssignStmt:
		if x.Tok == token.ASSIGN || x.Tok == token.DEFINE {
			w.assign(x.Lhs, x.Rhs, x.Tok == token.DEFINE, depth)
		} else { // op-assignment: can only raise
			w.assign(x.Lhs, x.Rhs, false, depth+1)
		}
	case *ast.DeclStmt:
		if g, ok := x.Decl.(*ast.GenDecl); ok {
			for _, sp := range g.Specs {
				if v, ok := sp.(*ast.ValueSpec); ok {
					lhs := make([]ast.Expr, len(v.Names))
					for i, n := range v.Names {
						lhs[i] = n
					}

					w.assign(lhs, v.Values, true, depth)
				}
			}
		}
	case *ast.ExprStmt:
		w.scan(x.X)
	case *ast.ReturnStmt:
		for _, r := range x.Results {
			w.scan(r)
		}
	case *ast.DeferStmt:
		w.scan(x.Call)
	case *ast.GoStmt:
		w.scan(x.Call)
	case *ast.IfStmt:
		w.stmt(x.Init, depth+1)
		w.scan(x.Cond)
		w.stmts(x.Body.List, depth+1)
		w.stmt(x.Else, depth+1)
	case *ast.BlockStmt:
		w.stmts(x.List, depth+1)
	case *ast.ForStmt:
		w.stmt(x.Init, depth+1)
		w.scan(x.Cond)
		w.stmts(x.Body.List, depth+1)
		w.stmt(x.Post, depth+1)
		w.stmts(x.Body.List, depth+1) // second pass: labels raised late in the body reach its start
	case *ast.RangeStmt:
		w.scan(x.X)
		l := w.label(x.X)

		for _, kv := range []ast.Expr{x.Key, x.Value} {
			if id, ok := kv.(*ast.Ident); ok && id.Name != "_" {
				w.env[id.Name] = max(w.env[id.Name], l)
			}
		}

		w.stmts(x.Body.List, depth+1)
		w.stmts(x.Body.List, depth+1)
	case *ast.SwitchStmt:
		w.stmt(x.Init, depth+1)
		w.scan(x.Tag)
		w.stmts(x.Body.List, depth+1)
	case *ast.TypeSwitchStmt:
		w.stmt(x.Init, depth+1)
		w.stmt(x.Assign, depth+1)
		w.stmts(x.Body.List, depth+1)
	case *ast.CaseClause:
		for _, e := range x.List {
			w.scan(e)
		}

		w.stmts(x.Body, depth+1)
	case *ast.SelectStmt:
		w.stmts(x.Body.List, depth+1)
	case *ast.CommClause:
		w.stmt(x.Comm, depth+1)
		w.stmts(x.Body, depth+1)
	case *ast.LabeledStmt:
		w.stmt(x.Stmt, depth)
	case *ast.IncDecStmt, *ast.BranchStmt, *ast.EmptyStmt, *ast.SendStmt:
	default:
		problems = append(problems, fmt.Sprintf("%s.%s: statement %T not understood", w.pkg, w.fn, s))
	}
}

func importsOf(f *ast.File) map[string]string {
	m := map[string]string{}

	for _, im := range f.Imports {
		p, _ := strconv.Unquote(im.Path.Value)
		name := p[strings.LastIndex(p, "/")+1:]

		if im.Name != nil {
			name = im.Name.Name
		}

		m[name] = p
	}

	return m
}

// field returns the value of `name:` in a composite literal.
func field(c *ast.CompositeLit, name string) ast.Expr {
	for _, e := range c.Elts {
		if kv, ok := e.(*ast.KeyValueExpr); ok {
			if id, ok := kv.Key.(*ast.Ident); ok && id.Name == name {
				return kv.Value
			}
		}
	}

	return nil
}

func isTrue(e ast.Expr) bool {
	id, ok := e.(*ast.Ident)

	return ok && id.Name == "true"
}

func unref(e ast.Expr) *ast.CompositeLit {
	if u, ok := e.(*ast.UnaryExpr); ok {
		e = u.X
	}

	c, _ := e.(*ast.CompositeLit)

	return c
}

// natives inspects data.Function{...} literals whose Value is a function of a sink package.
func natives(pkg string, f *ast.File, imports map[string]string) {
	ast.Inspect(f, func(n ast.Node) bool {
		c, ok := n.(*ast.CompositeLit)
		if !ok {
			return true
		}

		v, ok := field(c, "Value").(*ast.SelectorExpr)
		if !ok {
			return true
		}

		id, ok := v.X.(*ast.Ident)
		if !ok {
			return true
		}

		ip := imports[id.Name]
		if _, isSinkPkg := sinks[ip]; !isSinkPkg {
			return true
		}

		full := ip + "." + v.Sel.Name
		idx, isSink := sinks[ip][v.Sel.Name]

		if !isSink {
			if !notFile[full] {
				problems = append(problems, fmt.Sprintf("%s: native passthrough of %s is neither a known sink nor a known non-file function", pkg, full))
			}

			return true
		}

		decl := unref(field(c, "Declaration"))
		if decl == nil {
			problems = append(problems, fmt.Sprintf("%s: native %s has no literal Declaration", pkg, full))

			return true
		}

		name := v.Sel.Name
		if b, ok := field(decl, "Name").(*ast.BasicLit); ok {
			name, _ = strconv.Unquote(b.Value)
		}

		blocked := isTrue(field(c, "Sandboxed"))
		params, _ := field(decl, "Parameters").(*ast.CompositeLit)

		for _, i := range idx {
			ok := blocked

			if params != nil && i < len(params.Elts) {
				if p, isLit := params.Elts[i].(*ast.CompositeLit); isLit && isTrue(field(p, "Sandboxed")) {
					ok = true
				}
			}

			routes = append(routes, route{fmt.Sprintf("%s.%s (native, parameter %d)", pkg, name, i), full, ok})
		}

		return true
	})
}

// calls reports whether the body of function fn in file f calls a function named callee,
// optionally only inside an if statement whose condition mentions the selector `cond`.
func calls(f *ast.File, fn, callee, cond string) bool {
	found := false

	for _, d := range f.Decls {
		fd, ok := d.(*ast.FuncDecl)
		if !ok || fd.Name.Name != fn || fd.Body == nil {
			continue
		}

		var visit func(n ast.Node, guarded bool)
		visit = func(n ast.Node, guarded bool) {
			ast.Inspect(n, func(m ast.Node) bool {
				if is, ok := m.(*ast.IfStmt); ok && m != n && cond != "" {
					g := false

					ast.Inspect(is.Cond, func(k ast.Node) bool {
						if s, ok := k.(*ast.SelectorExpr); ok && s.Sel.Name == cond {
							g = true
						}

						return true
					})

					visit(is.Body, guarded || g)

					if is.Else != nil {
						visit(is.Else, guarded)
					}

					return false
				}

				if c, ok := m.(*ast.CallExpr); ok && calleeName(c.Fun) == callee && (cond == "" || guarded) {
					found = true
				}

				return true
			})
		}
		visit(fd.Body, false)
	}

	return found
}

func main() {
	if len(os.Args) != 2 {
		fmt.Fprintln(os.Stderr, "usage: extract_c26 <repo root>")
		os.Exit(2)
	}

	root := os.Args[1]
	fset := token.NewFileSet()
	nfiles := 0

	err := filepath.WalkDir(filepath.Join(root, "internal", "runtime"), func(p string, d os.DirEntry, err error) error {
		if err != nil {
			return err
		}

		if d.IsDir() || !strings.HasSuffix(p, ".go") || strings.HasSuffix(p, "_test.go") {
			return nil
		}

		f, err := parser.ParseFile(fset, p, nil, 0)
		if err != nil {
			return err
		}

		nfiles++
		pkg := filepath.Base(filepath.Dir(p))
		imports := importsOf(f)
		natives(pkg, f, imports)

		for _, d := range f.Decls {
			fd, ok := d.(*ast.FuncDecl)
			if !ok || fd.Body == nil {
				continue
			}

			w := &walker{pkg: pkg, fn: fd.Name.Name, imports: imports, env: map[string]int{}}

			for _, fl := range fd.Type.Params.List {
				t := ""

				switch x := fl.Type.(type) {
				case *ast.Ident:
					t = x.Name
				case *ast.SelectorExpr:
					t = calleeName(x)
				case *ast.Ellipsis:
					t = "string" // variadic: treat as program-controlled
				}

				if t == "string" || t == "List" || t == "any" {
					for _, n := range fl.Names {
						w.env[n.Name] = raw
					}
				}
			}

			if fd.Name.Name == "sandboxName" {
				routes = append(routes, route{pkg + ".sandboxName", "util.SandboxJoin", calls(f, "sandboxName", "SandboxJoin", "")})

				continue
			}

			w.stmts(fd.Body.List, 0)
		}

		return nil
	})
	if err != nil {
		fmt.Fprintln(os.Stderr, "extract_c26:", err)
		os.Exit(1)
	}

	// the dispatcher of native functions
	cn, err := parser.ParseFile(fset, filepath.Join(root, "internal", "language", "bytecode", "callNative.go"), nil, 0)
	if err != nil {
		fmt.Fprintln(os.Stderr, "extract_c26:", err)
		os.Exit(1)
	}

	routes = append(routes,
		route{"bytecode.convertToNative", "parameter flagged Sandboxed is rewritten by sandboxName", calls(cn, "convertToNative", "sandboxName", "Sandboxed")},
		route{"bytecode.sandboxName", "util.SandboxJoin", calls(cn, "sandboxName", "SandboxJoin", "")},
		route{"bytecode.callNative", "function flagged Sandboxed is refused", calls(cn, "callNative", "Context", "Sandboxed")})

	if len(problems) > 0 || nfiles < 20 {
		fmt.Fprintln(os.Stderr, "extract_c26: fail closed:", nfiles, "files;", strings.Join(problems, "; "))
		os.Exit(1)
	}

	sort.SliceStable(routes, func(i, j int) bool { return routes[i].fn < routes[j].fn })

	var b strings.Builder

	b.WriteString("-- GENERATED by tools/extract_c26 from the current source — do not edit\n")
	b.WriteString("import EgoVerif.C26.Model\nnamespace EgoVerif.C26.Gen\nopen EgoVerif.C26\n\n")
	fmt.Fprintf(&b, "-- %d files of internal/runtime parsed; %d sink calls with configuration-only paths not listed\n", nfiles, config)
	b.WriteString("def table : List Route := [\n")

	for i, r := range routes {
		sep := ","
		if i == len(routes)-1 {
			sep = ""
		}

		fmt.Fprintf(&b, "  ⟨%s, %s, %v⟩%s\n", strconv.Quote(r.fn), strconv.Quote(r.sink), r.ok, sep)
	}

	b.WriteString("]\n\n/-- every program-controlled path that reaches a file-system sink goes through the sandbox helper\n(known exceptions: `knownUnrouted`) -/\n")
	b.WriteString("theorem C26_all_routed : allRouted table = true := by decide\n\n")
	b.WriteString("-- completeness guards: the extractor still sees the functions the property is anchored in\n")

	for _, must := range []string{"os.readFile", "os.writeFile", "os.stat", "os.changeMode", "os.mkdir", "os.mkdirAll", "io.openFile",
		"io.readDirectory", "io.ExpandPath", "json.readFile", "json.writeFile", "sql.openDatabase", "os.Open (native, parameter 0)",
		"os.Create (native, parameter 0)", "os.Chdir (native, parameter 0)", "os.Remove (native, parameter 0)",
		"bytecode.convertToNative", "os.sandboxName", "io.sandboxName"} {
		fmt.Fprintf(&b, "example : (table.map (·.fn)).contains %s = true := by decide\n", strconv.Quote(must))
	}

	b.WriteString("\nend EgoVerif.C26.Gen\n")
	fmt.Print(b.String())

	for _, r := range routes {
		if !r.ok {
			fmt.Fprintf(os.Stderr, "UNROUTED %s -> %s\n", r.fn, r.sink)
		}
	}
}
