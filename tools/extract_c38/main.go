// extract_c38 — translator for property C38 (every user-visible message key has localized text).
//
// Regenerated on every ./check run from the CURRENT source tree (stdlib go/ast only):
//
//	(a) every constant message key that reaches the i18n catalog lookup:
//	      i18n.T(k) i18n.Text(lang,k)                    -> k
//	      i18n.L/M/E(k)  i18n.LLang/MLang/ELang(lang,k)  -> "label."/"msg."/"error." + k
//	      errors.Message(k) (and Message(k) inside package errors, i.e. every Err* constant
//	      of internal/errors/messages.go)               -> "error." + k   (errors/format.go errorText)
//	      ui.Log/ui.WriteLog(class,k,args)              -> "log." + k when k looks like a key
//	                                                       (cli/ui/format.go FormatLogMessage)
//	      ui.Say/ui.SayAlways(k,...)                     -> k when k looks like a key
//	(b) the key -> language -> text table exactly as tools/lang/compile.go builds it from
//	    internal/i18n/languages/messages_*.txt, including the elision of a translation that is
//	    identical to the English text (writeMessageDictionary), so the run-time English fallback of
//	    internal/i18n/strings.go translate() is what resolves such a key.
//
// Output (directory -out): keys.json, table.json, facts.json, Gen.lean (Lean data + per-chunk
// `decide +kernel` obligations).  The extractor FAILS CLOSED (exit 2) on anything it does not
// understand: an unknown function of package i18n, a malformed language-file line, a language file
// name outside messages_<lang>.txt.
package main

import (
	"encoding/json"
	"flag"
	"fmt"
	"go/ast"
	"go/parser"
	"go/token"
	"os"
	"path/filepath"
	"sort"
	"strconv"
	"strings"
)

type site struct {
	Pos  string `json:"pos"`
	Sink string `json:"sink"`
}

type keyInfo struct {
	Key    string `json:"key"`
	ID     int    `json:"id"`
	Sites  []site `json:"sites"`
	Signal bool   `json:"signal,omitempty"`
}

type violation struct {
	Class string `json:"class"`
	Key   string `json:"key"`
	Lang  string `json:"lang"`
	What  string `json:"what"`
	Got   string `json:"got,omitempty"`
	Want  string `json:"want,omitempty"`
	Site  string `json:"site,omitempty"`
}

var (
	fset     = token.NewFileSet()
	modPath  string
	problems []string
)

func fatal(format string, a ...any) {
	fmt.Fprintf(os.Stderr, "extract_c38: "+format+"\n", a...)
	os.Exit(2)
}

// ---------------------------------------------------------------- language files (tools/lang/compile.go)

// compileFile mirrors tools/lang/compile.go compileFile line by line (minus the diagnostics).
func compileFile(filename, language string, messages map[string]map[string]string, dups *[]string) {
	b, err := os.ReadFile(filename)
	if err != nil {
		fatal("%v", err)
	}

	prefix := ""

	for lineNumber, line := range strings.Split(string(b), "\n") {
		if strings.HasPrefix(line, "#") {
			continue
		}

		line = strings.TrimSpace(line)
		if len(line) == 0 {
			continue
		}

		if strings.HasPrefix(line, "[") {
			if !strings.HasSuffix(line, "]") {
				fatal("%s:%d: malformed prefix line (the language compiler panics here)", filename, lineNumber+1)
			}

			prefix = line[1 : len(line)-1]

			continue
		}

		i := strings.Index(line, "=")
		if i < 0 {
			fatal("%s:%d: malformed line (the language compiler panics here)", filename, lineNumber+1)
		}

		key := strings.TrimSpace(line[:i])
		message := line[i+1:]

		if prefix != "" {
			key = prefix + "." + key
		}

		if _, ok := messages[key]; !ok {
			messages[key] = make(map[string]string)
		}

		if _, ok := messages[key][language]; ok {
			*dups = append(*dups, fmt.Sprintf("%s:%d %s", filepath.Base(filename), lineNumber+1, key))
		}

		messages[key][language] = message
	}
}

// compileDir mirrors compileFiles + the elision done by writeMessageDictionary.
func compileDir(dir string) (raw, emitted map[string]map[string]string, langs []string, dups []string) {
	files, err := os.ReadDir(dir)
	if err != nil {
		fatal("%v", err)
	}

	raw = map[string]map[string]string{}
	seen := map[string]bool{}

	for _, file := range files {
		if file.IsDir() || !file.Type().IsRegular() {
			continue
		}

		if !strings.HasPrefix(file.Name(), "messages_") || !strings.HasSuffix(file.Name(), ".txt") {
			continue
		}

		lang := strings.TrimSuffix(strings.TrimPrefix(file.Name(), "messages_"), ".txt")
		if lang == "" || strings.ContainsAny(lang, " \t\"\\") {
			fatal("language file %q: unsupported language name", file.Name())
		}

		compileFile(filepath.Join(dir, file.Name()), lang, raw, &dups)

		seen[lang] = true
	}

	// writeMessageDictionary: a non-English text identical to messages[key]["en"] is not written.
	emitted = map[string]map[string]string{}

	for key, m := range raw {
		emitted[key] = map[string]string{}

		for lang, text := range m {
			if lang != "en" && text == raw[key]["en"] {
				continue
			}

			emitted[key][lang] = text
		}
	}

	// the languages the RUNNING catalog knows (i18n.SupportedLanguages walks the emitted map)
	shipped := map[string]bool{}

	for _, m := range emitted {
		for lang := range m {
			shipped[lang] = true
		}
	}

	for lang := range seen {
		if !shipped[lang] {
			problems = append(problems, "language "+lang+" has a file but no entry survives in the generated catalog")
		}
	}

	for lang := range shipped {
		langs = append(langs, lang)
	}

	sort.Strings(langs)

	return raw, emitted, langs, dups
}

// placeholders mirrors github.com/tucats/subs splitOutFormats + handleFormat's key cut: the names a
// value map must contain for the text to be substituted completely.  Result: sorted, de-duplicated.
func placeholders(text string) []string {
	set := map[string]bool{}

	for _, segment := range strings.Split(text, "{{") {
		if segment == "" || !strings.Contains(segment, "}}") {
			continue
		}

		expr := strings.SplitN(segment, "}}", 2)[0]
		// handleFormat: TrimPrefix "{{", TrimSuffix "}}" then Cut at the first "|".
		name, _, _ := strings.Cut(expr, "|")
		set[name] = true
	}

	res := make([]string, 0, len(set))
	for n := range set {
		res = append(res, n)
	}

	sort.Strings(res)

	return res
}

// ---------------------------------------------------------------- Go source

type pkgFile struct {
	path    string // relative to repo root
	dir     string // relative directory
	file    *ast.File
	imports map[string]string // local name -> import path
}

func parseTree(root string) []*pkgFile {
	var res []*pkgFile

	err := filepath.WalkDir(root, func(p string, d os.DirEntry, err error) error {
		if err != nil {
			return err
		}

		name := d.Name()
		if d.IsDir() {
			if p != root && (strings.HasPrefix(name, ".") || name == "testdata" || name == "vendor" || name == "node_modules") {
				return filepath.SkipDir
			}

			return nil
		}

		if !strings.HasSuffix(name, ".go") || strings.HasSuffix(name, "_test.go") {
			return nil
		}

		rel, _ := filepath.Rel(root, p)
		// the verification overlay itself is not part of the product
		if strings.HasPrefix(name, "zz_verif_") || strings.HasPrefix(rel, "internal/verifh") || strings.HasPrefix(rel, "tools/verif_") {
			return nil
		}

		f, perr := parser.ParseFile(fset, p, nil, parser.SkipObjectResolution)
		if perr != nil {
			fatal("parse %s: %v", rel, perr)
		}

		pf := &pkgFile{path: rel, dir: filepath.ToSlash(filepath.Dir(rel)), file: f, imports: map[string]string{}}

		for _, im := range f.Imports {
			ip, _ := strconv.Unquote(im.Path.Value)
			local := ip[strings.LastIndex(ip, "/")+1:]

			if im.Name != nil {
				local = im.Name.Name
			}

			pf.imports[local] = ip
		}

		res = append(res, pf)

		return nil
	})
	if err != nil {
		fatal("%v", err)
	}

	return res
}

func importPathOf(dir string) string {
	if dir == "." {
		return modPath
	}

	return modPath + "/" + dir
}

// constant string table: import path -> name -> value (package-level const declarations only)
type constTab map[string]map[string]string

func evalConst(e ast.Expr, pf *pkgFile, ct constTab) (string, bool) {
	switch v := e.(type) {
	case *ast.BasicLit:
		if v.Kind != token.STRING {
			return "", false
		}

		s, err := strconv.Unquote(v.Value)

		return s, err == nil
	case *ast.ParenExpr:
		return evalConst(v.X, pf, ct)
	case *ast.BinaryExpr:
		if v.Op != token.ADD {
			return "", false
		}

		a, ok1 := evalConst(v.X, pf, ct)
		b, ok2 := evalConst(v.Y, pf, ct)

		return a + b, ok1 && ok2
	case *ast.Ident:
		s, ok := ct[importPathOf(pf.dir)][v.Name]

		return s, ok
	case *ast.SelectorExpr:
		if x, ok := v.X.(*ast.Ident); ok {
			if ip, ok := pf.imports[x.Name]; ok {
				s, ok := ct[ip][v.Sel.Name]

				return s, ok
			}
		}
	}

	return "", false
}

func buildConsts(files []*pkgFile) constTab {
	ct := constTab{}
	type pending struct {
		pf   *pkgFile
		name string
		e    ast.Expr
	}

	var todo []pending

	for _, pf := range files {
		for _, d := range pf.file.Decls {
			gd, ok := d.(*ast.GenDecl)
			if !ok || gd.Tok != token.CONST {
				continue
			}

			for _, sp := range gd.Specs {
				vs := sp.(*ast.ValueSpec)
				for i, n := range vs.Names {
					if i < len(vs.Values) {
						todo = append(todo, pending{pf, n.Name, vs.Values[i]})
					}
				}
			}
		}
	}

	for progress := true; progress; {
		progress = false

		var rest []pending

		for _, p := range todo {
			if s, ok := evalConst(p.e, p.pf, ct); ok {
				ip := importPathOf(p.pf.dir)
				if ct[ip] == nil {
					ct[ip] = map[string]string{}
				}

				ct[ip][p.name] = s
				progress = true
			} else {
				rest = append(rest, p)
			}
		}

		todo = rest
	}

	return ct
}

// keyShaped mirrors the run-time tests that decide whether a ui.Log / ui.Say format is a catalog key.
func logKey(msg string) (string, bool) {
	// FormatLogMessage: Count(".")>0 && Count(" ")==0 && !HasPrefix("log.") -> "log."+msg; the text is
	// then passed to i18n.T in every case.  A format with blanks or without a dot is literal text.
	if strings.Count(msg, ".") > 0 && strings.Count(msg, " ") == 0 {
		if !strings.HasPrefix(msg, "log.") {
			msg = "log." + msg
		}

		return msg, identLike(msg)
	}

	return "", false
}

func sayKey(msg string) (string, bool) {
	// SayAlways: strings.Index(format, ".") > 0 -> i18n.T(format).  Only strings made of key
	// characters are taken as keys (a sentence with a full stop is literal text).
	if strings.Index(msg, ".") > 0 && identLike(msg) && !strings.HasSuffix(msg, ".") {
		return msg, true
	}

	return "", false
}

func identLike(s string) bool {
	if s == "" {
		return false
	}

	for _, r := range s {
		switch {
		case r >= 'a' && r <= 'z', r >= 'A' && r <= 'Z', r >= '0' && r <= '9', r == '.', r == '_', r == '-':
		default:
			return false
		}
	}

	return true
}

type extractor struct {
	ct      constTab
	keys    map[string]*keyInfo
	dynamic map[string][]string // sink -> positions with a non-constant key
	sinks   map[string]int
}

func (x *extractor) add(key, sink string, pos token.Pos, signal bool) {
	k := x.keys[key]
	if k == nil {
		k = &keyInfo{Key: key, Signal: signal}
		x.keys[key] = k
	}

	if !signal {
		k.Signal = false
	}

	p := fset.Position(pos)
	k.Sites = append(k.Sites, site{Pos: fmt.Sprintf("%s:%d", x.rel(p.Filename), p.Line), Sink: sink})
	x.sinks[sink]++
}

var root string

func (x *extractor) rel(p string) string {
	r, err := filepath.Rel(root, p)
	if err != nil {
		return p
	}

	return filepath.ToSlash(r)
}

var (
	i18nPath, errorsPath, uiPath string

	// every exported function of package i18n must be classified here (fail closed otherwise)
	i18nKeyFuncs = map[string]struct {
		arg    int
		prefix string
	}{
		"T": {0, ""}, "Text": {1, ""},
		"L": {0, "label."}, "M": {0, "msg."}, "E": {0, "error."},
		"LLang": {1, "label."}, "MLang": {1, "msg."}, "ELang": {1, "error."},
	}
	i18nOther = map[string]bool{"DefaultLanguage": true, "NegotiateLanguage": true, "MergeLocalization": true,
		"SupportedLanguages": true, "DumpClass": true, "Language": true}
)

func (x *extractor) call(pf *pkgFile, c *ast.CallExpr) {
	var pkg, fn string

	switch f := c.Fun.(type) {
	case *ast.SelectorExpr:
		id, ok := f.X.(*ast.Ident)
		if !ok {
			return
		}

		ip, ok := pf.imports[id.Name]
		if !ok {
			return
		}

		pkg, fn = ip, f.Sel.Name
	case *ast.Ident:
		pkg, fn = importPathOf(pf.dir), f.Name
	default:
		return
	}

	arg := func(i int) (string, bool, bool) {
		if i >= len(c.Args) {
			return "", false, false
		}

		s, ok := evalConst(c.Args[i], pf, x.ct)

		return s, ok, true
	}

	dyn := func(sink string) {
		p := fset.Position(c.Pos())
		x.dynamic[sink] = append(x.dynamic[sink], fmt.Sprintf("%s:%d", x.rel(p.Filename), p.Line))
	}

	switch pkg {
	case i18nPath:
		if kf, ok := i18nKeyFuncs[fn]; ok {
			s, isConst, present := arg(kf.arg)
			if !present {
				return
			}

			if !isConst {
				dyn("i18n." + fn)

				return
			}

			x.add(kf.prefix+s, "i18n."+fn, c.Pos(), false)

			return
		}

		if _, isSel := c.Fun.(*ast.SelectorExpr); isSel && !i18nOther[fn] {
			p := fset.Position(c.Pos())
			problems = append(problems, fmt.Sprintf("%s:%d: call of unclassified function i18n.%s", x.rel(p.Filename), p.Line, fn))
		}
	case errorsPath:
		if fn != "Message" && fn != "NewMessage" {
			return
		}

		s, isConst, present := arg(0)
		if !present {
			return
		}

		if !isConst {
			dyn("errors." + fn)

			return
		}

		// errors.Message: a leading "_" (defs.ReadonlyVariablePrefix) is removed; such codes are the
		// flow-control signals ("THESE SHOULD NOT BE LOCALIZED"), not messages.
		signal := strings.HasPrefix(s, "_")
		if signal {
			s = s[1:]
		}

		// errors/format.go errorText: i18n.ELang(lang, TrimPrefix(code, "error."))
		x.add("error."+strings.TrimPrefix(s, "error."), "errors."+fn, c.Pos(), signal)
	case uiPath:
		switch fn {
		case "Log", "WriteLog":
			s, isConst, present := arg(1)
			if !present {
				return
			}

			if !isConst {
				dyn("ui." + fn)

				return
			}

			if k, ok := logKey(s); ok {
				x.add(k, "ui."+fn, c.Pos(), false)
			} else {
				x.sinks["ui."+fn+"(literal text)"]++
			}
		case "Say", "SayAlways":
			s, isConst, present := arg(0)
			if !present {
				return
			}

			if !isConst {
				dyn("ui." + fn)

				return
			}

			if k, ok := sayKey(s); ok {
				x.add(k, "ui."+fn, c.Pos(), false)
			} else {
				x.sinks["ui."+fn+"(literal text)"]++
			}
		}
	}
}

// ---------------------------------------------------------------- main

func leanStr(s string) string {
	var b strings.Builder

	b.WriteByte('"')

	for _, r := range s {
		switch {
		case r == '"' || r == '\\':
			b.WriteByte('\\')
			b.WriteRune(r)
		case r < 0x20 || r == 0x7f:
			fmt.Fprintf(&b, "\\u{%x}", r)
		default:
			b.WriteRune(r)
		}
	}

	b.WriteByte('"')

	return b.String()
}

func main() {
	var out, known string

	flag.StringVar(&root, "repo", ".", "source tree")
	flag.StringVar(&out, "out", ".", "output directory")
	flag.StringVar(&known, "known", "", "JSON list of known-finding class ids (missing:<lang>:<key>, empty:…, placeholders:…)")
	chunk := flag.Int("chunk", 100, "rows per Lean def")
	flag.Parse()

	root, _ = filepath.Abs(root)

	gm, err := os.ReadFile(filepath.Join(root, "go.mod"))
	if err != nil {
		fatal("%v", err)
	}

	for _, l := range strings.Split(string(gm), "\n") {
		if strings.HasPrefix(l, "module ") {
			modPath = strings.TrimSpace(strings.TrimPrefix(l, "module "))
		}
	}

	if modPath == "" {
		fatal("no module line in go.mod")
	}

	i18nPath = modPath + "/internal/i18n"
	errorsPath = modPath + "/internal/errors"
	uiPath = modPath + "/internal/cli/ui"

	// (b) tables
	raw, emitted, langs, dups := compileDir(filepath.Join(root, "internal/i18n/languages"))

	enIx := -1

	for i, l := range langs {
		if l == "en" {
			enIx = i
		}
	}

	if enIx < 0 {
		fatal("no English language file (messages_en.txt): the documented fallback has nothing to fall back to")
	}

	// (a) keys
	files := parseTree(root)
	x := &extractor{ct: buildConsts(files), keys: map[string]*keyInfo{}, dynamic: map[string][]string{}, sinks: map[string]int{}}

	sawPkg := map[string]bool{}

	for _, pf := range files {
		sawPkg[importPathOf(pf.dir)] = true

		ast.Inspect(pf.file, func(n ast.Node) bool {
			if c, ok := n.(*ast.CallExpr); ok {
				x.call(pf, c)
			}

			return true
		})
	}

	for _, p := range []string{i18nPath, errorsPath, uiPath} {
		if !sawPkg[p] {
			fatal("package %s not found in the tree: the sink table of this extractor is out of date", p)
		}
	}

	// every exported func of package i18n must be classified
	for _, pf := range files {
		if importPathOf(pf.dir) != i18nPath {
			continue
		}

		for _, d := range pf.file.Decls {
			if fd, ok := d.(*ast.FuncDecl); ok && fd.Recv == nil && fd.Name.IsExported() {
				if _, k := i18nKeyFuncs[fd.Name.Name]; !k && !i18nOther[fd.Name.Name] {
					problems = append(problems, "package i18n exports unclassified function "+fd.Name.Name)
				}
			}
		}
	}

	if len(problems) > 0 {
		for _, p := range problems {
			fmt.Fprintln(os.Stderr, "extract_c38: "+p)
		}

		os.Exit(2)
	}

	var keys []*keyInfo

	for _, k := range x.keys {
		keys = append(keys, k)
	}

	sort.Slice(keys, func(i, j int) bool { return keys[i].Key < keys[j].Key })

	nsig := 0

	var oblig []*keyInfo

	for _, k := range keys {
		sort.Slice(k.Sites, func(i, j int) bool { return k.Sites[i].Pos < k.Sites[j].Pos })

		if k.Signal {
			nsig++
			k.ID = -1

			continue
		}

		k.ID = len(oblig)
		oblig = append(oblig, k)
	}

	// known findings -> exclusions
	exclR := map[[2]string]bool{} // (lang,key) excused from "resolves non-empty"
	exclP := map[[2]string]bool{} // (lang,key) excused from "same placeholders"

	if known != "" {
		var classes []string

		b, err := os.ReadFile(known)
		if err != nil {
			fatal("%v", err)
		}

		if err := json.Unmarshal(b, &classes); err != nil {
			fatal("%s: %v", known, err)
		}

		for _, c := range classes {
			parts := strings.SplitN(c, ":", 3)
			if len(parts) != 3 {
				fatal("known finding class %q: want <kind>:<lang>:<key>", c)
			}

			switch parts[0] {
			case "missing", "empty":
				exclR[[2]string{parts[1], parts[2]}] = true
				// a text that does not resolve has no placeholders to compare
				exclP[[2]string{parts[1], parts[2]}] = true
			case "placeholders":
				exclP[[2]string{parts[1], parts[2]}] = true
			default:
				fatal("known finding class %q: unknown kind", c)
			}
		}
	}

	// evaluate (the extractor's own verdict, used to NAME the failing key; the Lean obligation
	// recomputes it from the emitted rows, the harness re-observes it at run time)
	phIDs := map[string]int{}

	var phNames []string

	for _, k := range oblig {
		for _, l := range langs {
			if t, ok := emitted[k.Key][l]; ok {
				for _, p := range placeholders(t) {
					if _, ok := phIDs[p]; !ok {
						phIDs[p] = 0
						phNames = append(phNames, p)
					}
				}
			}
		}
	}

	sort.Strings(phNames)

	for i, p := range phNames {
		phIDs[p] = i
	}

	resolve := func(key, lang string) (string, bool) {
		if t, ok := emitted[key][lang]; ok {
			return t, true
		}

		t, ok := emitted[key]["en"]

		return t, ok
	}

	var viol []violation

	for _, k := range oblig {
		enText, enOK := resolve(k.Key, "en")

		for _, l := range langs {
			t, ok := resolve(k.Key, l)

			switch {
			case !ok:
				viol = append(viol, violation{Class: "missing:" + l + ":" + k.Key, Key: k.Key, Lang: l, Site: k.Sites[0].Pos,
					What: fmt.Sprintf("message key %q (used at %s) has no text in language %q and no English fallback: the raw key is shown", k.Key, k.Sites[0].Pos, l)})
			case t == "":
				viol = append(viol, violation{Class: "empty:" + l + ":" + k.Key, Key: k.Key, Lang: l, Site: k.Sites[0].Pos,
					What: fmt.Sprintf("message key %q resolves to EMPTY text in language %q", k.Key, l)})
			case enOK && l != "en":
				a, b := placeholders(t), placeholders(enText)
				if strings.Join(a, "\x00") != strings.Join(b, "\x00") {
					viol = append(viol, violation{Class: "placeholders:" + l + ":" + k.Key, Key: k.Key, Lang: l, Site: k.Sites[0].Pos,
						Got: strings.Join(a, ","), Want: strings.Join(b, ","),
						What: fmt.Sprintf("message key %q: the %q text uses placeholders {%s}, the English text {%s}", k.Key, l, strings.Join(a, ","), strings.Join(b, ","))})
				}
			}
		}
	}

	// ------------------------------------------------------------ write JSON
	writeJSON := func(name string, v any) {
		b, err := json.MarshalIndent(v, "", " ")
		if err != nil {
			fatal("%v", err)
		}

		if err := os.WriteFile(filepath.Join(out, name), b, 0o644); err != nil {
			fatal("%v", err)
		}
	}

	writeJSON("c38_keys.json", keys)
	writeJSON("c38_table.json", map[string]any{"langs": langs, "emitted": emitted, "raw_keys": len(raw)})
	writeJSON("c38_violations.json", viol)

	orphans := 0

	for key, m := range raw {
		if _, ok := m["en"]; !ok {
			orphans++
			_ = key
		}
	}

	unused := 0

	for key := range raw {
		if x.keys[key] == nil {
			unused++
		}
	}

	dynTotal := 0
	for _, v := range x.dynamic {
		dynTotal += len(v)
	}

	writeJSON("c38_facts.json", map[string]any{
		"langs": langs, "catalog_keys": len(raw), "source_keys": len(oblig), "signal_keys": nsig,
		"sinks": x.sinks, "dynamic_sites": x.dynamic, "dynamic_total": dynTotal, "duplicates": dups,
		"keys_without_english": orphans, "catalog_keys_not_referenced_by_a_constant": unused,
		"placeholder_names": len(phNames), "violations": len(viol),
	})

	// ------------------------------------------------------------ write Lean
	var b strings.Builder

	b.WriteString("-- GENERATED by tools/extract_c38 from the current source tree — do not edit\n")
	b.WriteString("import EgoVerif.C38.Props\nnamespace EgoVerif.C38.Gen\nopen EgoVerif.C38\n\n")
	fmt.Fprintf(&b, "/-- shipped languages, in i18n.SupportedLanguages order -/\ndef langs : List String := [%s]\n",
		strings.Join(mapS(langs, leanStr), ", "))
	fmt.Fprintf(&b, "def nLangs : Nat := %d\ndef enIx : Nat := %d\n", len(langs), enIx)

	pairList := func(m map[[2]string]bool) string {
		var ps []string

		for i, k := range oblig {
			for j, l := range langs {
				if m[[2]string{l, k.Key}] {
					ps = append(ps, fmt.Sprintf("(%d, %d)", i, j))
				}
			}
		}

		return "[" + strings.Join(ps, ", ") + "]"
	}

	fmt.Fprintf(&b, "/-- (key id, language index) pairs listed in known_findings.d/C38.json -/\nnoncomputable def exclR : List (Nat × Nat) := %s\nnoncomputable def exclP : List (Nat × Nat) := %s\n\n",
		pairList(exclR), pairList(exclP))

	nchunks := 0

	for start := 0; start < len(oblig) || (start == 0 && nchunks == 0); start += *chunk {
		end := start + *chunk
		if end > len(oblig) {
			end = len(oblig)
		}

		fmt.Fprintf(&b, "noncomputable def rows%d : List Row := [\n", nchunks)

		for i := start; i < end; i++ {
			k := oblig[i]

			var cells []string

			for _, l := range langs {
				t, ok := emitted[k.Key][l]
				if !ok {
					cells = append(cells, "none")

					continue
				}

				var ids []string
				for _, p := range placeholders(t) {
					ids = append(ids, strconv.Itoa(phIDs[p]))
				}

				cells = append(cells, fmt.Sprintf("some ⟨%d, [%s]⟩", len(t), strings.Join(ids, ",")))
			}

			sep := ","
			if i == end-1 {
				sep = ""
			}

			fmt.Fprintf(&b, "  ⟨%d, [%s]⟩%s -- %s\n", i, strings.Join(cells, ", "), sep, strings.ReplaceAll(k.Key, "\n", " "))
		}

		b.WriteString("]\n")
		fmt.Fprintf(&b, "theorem rows%d_ok : allOk enIx nLangs exclR exclP rows%d = true := by decide +kernel\n\n", nchunks, nchunks)

		nchunks++

		if end >= len(oblig) {
			break
		}
	}

	var names, oks []string
	for i := 0; i < nchunks; i++ {
		names = append(names, fmt.Sprintf("rows%d", i))
		oks = append(oks, fmt.Sprintf("rows%d_ok", i))
	}

	fmt.Fprintf(&b, "noncomputable def rows : List Row := %s\n", strings.Join(names, " ++ "))
	fmt.Fprintf(&b, "theorem rows_ok : allOk enIx nLangs exclR exclP rows = true := by\n  simp only [rows, allOk_append, %s, Bool.and_self]\n\n", strings.Join(oks, ", "))
	fmt.Fprintf(&b, "/-- the number of distinct constant message keys found in the source -/\ntheorem rows_length : rows.length = %d := by\n  simp only [rows, List.length_append]; decide\n\n", len(oblig))
	b.WriteString(`/-- C38 on the current tree: every constant key × every shipped language resolves (own text or the
    English fallback of strings.go translate) to non-empty text … -/
theorem C38_gen_resolves : ∀ r ∈ rows, ∀ l, l < nLangs → (r.key, l) ∉ exclR →
    ∃ c, resolve enIx r l = some c ∧ 0 < c.len :=
  C38_resolves enIx nLangs exclR exclP rows rows_ok

/-- … with exactly the placeholders of the English text. -/
theorem C38_gen_placeholders : ∀ r ∈ rows, ∀ l, l < nLangs → (r.key, l) ∉ exclP →
    ∀ c ce, resolve enIx r l = some c → resolve enIx r enIx = some ce → c.phs = ce.phs :=
  C38_placeholders enIx nLangs exclR exclP rows rows_ok

/-- negotiation over the shipped languages only ever answers "" or a shipped language -/
theorem C38_gen_negotiate (pf : List Char → Option Q) (gt : Q → Q → Bool) (h : List Char) :
    negotiate pf gt (langs.map String.toList) h = [] ∨ negotiate pf gt (langs.map String.toList) h ∈ langs.map String.toList :=
  C38_negotiate pf gt _ h

#print axioms C38_gen_resolves
#print axioms C38_gen_placeholders
end EgoVerif.C38.Gen
`)

	if err := os.WriteFile(filepath.Join(out, "C38Gen.lean"), []byte(b.String()), 0o644); err != nil {
		fatal("%v", err)
	}

	fmt.Printf("extract_c38: %d languages %v, %d catalog keys, %d constant source keys (+%d signals), %d dynamic sites, %d violations, %d chunks\n",
		len(langs), langs, len(raw), len(oblig), nsig, dynTotal, len(viol), nchunks)
}

func mapS(xs []string, f func(string) string) []string {
	r := make([]string, len(xs))
	for i, x := range xs {
		r[i] = f(x)
	}

	return r
}
