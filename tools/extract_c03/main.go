// extract_c03 lists, for every *ByteCode function of internal/language/bytecode/math.go, the
// case lists of its type switches (the per-type dispatch sets) as JSON.  stdlib only.
package main

import (
	"encoding/json"
	"fmt"
	"go/ast"
	"go/parser"
	"go/token"
	"os"
)

type sw struct {
	Func  string     `json:"func"`
	Line  int        `json:"line"`
	Tag   string     `json:"tag"`
	Cases [][]string `json:"cases"`
	Depth int        `json:"depth"`
}

func exprString(e ast.Expr) string {
	switch x := e.(type) {
	case *ast.Ident:
		return x.Name
	case *ast.SelectorExpr:
		return exprString(x.X) + "." + x.Sel.Name
	case *ast.StarExpr:
		return "*" + exprString(x.X)
	case *ast.ArrayType:
		return "[]" + exprString(x.Elt)
	case *ast.TypeAssertExpr:
		return exprString(x.X) + ".(type)"
	case *ast.InterfaceType:
		return "interface{}"
	}

	return fmt.Sprintf("%T", e)
}

func main() {
	fset := token.NewFileSet()

	f, err := parser.ParseFile(fset, os.Args[1], nil, 0)
	if err != nil {
		fmt.Fprintln(os.Stderr, err)
		os.Exit(1)
	}

	var out []sw

	for _, d := range f.Decls {
		fd, ok := d.(*ast.FuncDecl)
		if !ok || fd.Body == nil {
			continue
		}

		depth := 0

		var walk func(n ast.Node)

		walk = func(n ast.Node) {
			ast.Inspect(n, func(m ast.Node) bool {
				ts, ok := m.(*ast.TypeSwitchStmt)
				if !ok || m == n {
					return true
				}

				s := sw{Func: fd.Name.Name, Line: fset.Position(ts.Pos()).Line, Depth: depth}

				switch a := ts.Assign.(type) {
				case *ast.AssignStmt:
					s.Tag = exprString(a.Rhs[0])
				case *ast.ExprStmt:
					s.Tag = exprString(a.X)
				}

				for _, c := range ts.Body.List {
					cc := c.(*ast.CaseClause)

					var names []string
					if cc.List == nil {
						names = []string{"default"}
					}

					for _, e := range cc.List {
						names = append(names, exprString(e))
					}

					s.Cases = append(s.Cases, names)
				}

				out = append(out, s)
				depth++
				walk(ts.Body)
				depth--

				return false
			})
		}

		walk(fd.Body)
	}

	b, _ := json.MarshalIndent(out, "", " ")
	fmt.Println(string(b))
}
