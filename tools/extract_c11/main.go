// extract_c11 — translator for property C11 (runtime packages match the Go functions they wrap).
//
// Regenerated on every ./check run from the CURRENT source tree (stdlib go/ast only): the function
// table of every mirrored runtime package, i.e. the `data.NewPackageFromMap("<pkg>", map[string]any{…})`
// literal of internal/runtime/<pkg>/*.go.  For every `data.Function{…}` entry it records
//
//	name, parameter types, variadic flag, return types, ArgCount, IsNative, and the `Value:` expression
//	(a selector on an imported Go package such as strings.Clone = "go:strings.Clone", or a package-local
//	wrapper such as `chars` = "local:chars").
//
// Output (directory -out): c11_table.json (consumed by the Go harness and checks/C11.py) and
// C11Gen.lean (Lean data `EgoVerif.C11.Gen.table` + the per-function obligations; compiled with
// ctx.lean_obligation).  The extractor FAILS CLOSED (exit 2) on anything it does not understand: a
// type expression outside the grammar below, a non-constant map key, a field of data.Function /
// data.Declaration / data.Parameter it does not know, a package literal it cannot find.
package main

import (
	"encoding/json"
	"flag"
	"fmt"
	"go/ast"
	"go/parser"
	"go/token"
	"os"
	"path/filepath"
	"sort"
	"strconv"
	"strings"
)

type fn struct {
	Pkg      string   `json:"pkg"`
	Name     string   `json:"name"`
	DeclName string   `json:"decl_name"`
	Params   []string `json:"params"`
	Variadic bool     `json:"variadic"`
	Returns  []string `json:"returns"`
	ArgCount [2]int   `json:"arg_count"`
	Native   bool     `json:"native"`
	Value    string   `json:"value"`
	Receiver bool     `json:"receiver"`
	Pos      string   `json:"pos"`
}

type other struct {
	Pkg  string `json:"pkg"`
	Name string `json:"name"`
	Kind string `json:"kind"`
}

var fset = token.NewFileSet()

func fatal(format string, a ...any) {
	fmt.Fprintf(os.Stderr, "extract_c11: "+format+"\n", a...)
	os.Exit(2)
}

func pos(n ast.Node) string {
	p := fset.Position(n.Pos())

	return fmt.Sprintf("%s:%d", filepath.Base(p.Filename), p.Line)
}

var scalarTypes = map[string]string{
	"StringType": "string", "IntType": "int", "Int8Type": "int8", "Int16Type": "int16", "Int32Type": "int32",
	"Int64Type": "int64", "ByteType": "byte", "UInt16Type": "uint16", "UInt32Type": "uint32", "UInt64Type": "uint64",
	"UIntType": "uint", "Float32Type": "float32", "Float64Type": "float64", "BoolType": "bool",
	"Complex64Type": "complex64", "Complex128Type": "complex128", "InterfaceType": "any", "ErrorType": "error",
	"OwnType": "own", "VoidType": "void", "StructType": "struct", "ChanType": "chan", "TypeType": "type",
	"NilType": "nil", "UndefinedType": "undefined",
}

// typeExpr renders a *data.Type expression in a canonical textual form.
func typeExpr(e ast.Expr) string {
	switch x := e.(type) {
	case *ast.SelectorExpr:
		if id, ok := x.X.(*ast.Ident); ok {
			if id.Name == "data" {
				if s, ok := scalarTypes[x.Sel.Name]; ok {
					return s
				}

				fatal("%s: unknown data type constant data.%s", pos(e), x.Sel.Name)
			}

			return "named:" + id.Name + "." + x.Sel.Name
		}
	case *ast.Ident:
		if x.Name == "nil" {
			return "nil"
		}

		return "named:" + x.Name
	case *ast.CallExpr:
		if sel, ok := x.Fun.(*ast.SelectorExpr); ok {
			if id, ok := sel.X.(*ast.Ident); ok && id.Name == "data" {
				switch sel.Sel.Name {
				case "ArrayType":
					if len(x.Args) == 1 {
						return "[]" + typeExpr(x.Args[0])
					}
				case "PointerType":
					if len(x.Args) == 1 {
						return "*" + typeExpr(x.Args[0])
					}
				case "MapType":
					if len(x.Args) == 2 {
						return "map[" + typeExpr(x.Args[0]) + "]" + typeExpr(x.Args[1])
					}
				case "FunctionType":
					return "func"
				case "StructureType", "TypeDefinition":
					return "struct"
				}
			}
		}
	}

	fatal("%s: type expression not understood", pos(e))

	return ""
}

func boolLit(e ast.Expr) bool {
	if id, ok := e.(*ast.Ident); ok && (id.Name == "true" || id.Name == "false") {
		return id.Name == "true"
	}

	fatal("%s: boolean literal expected", pos(e))

	return false
}

func intLit(e ast.Expr) int {
	if bl, ok := e.(*ast.BasicLit); ok && bl.Kind == token.INT {
		n, err := strconv.Atoi(bl.Value)
		if err == nil {
			return n
		}
	}

	if sel, ok := e.(*ast.SelectorExpr); ok && sel.Sel.Name == "Any" {
		return 99999
	}

	if id, ok := e.(*ast.Ident); ok {
		return map[string]int{"Any": 99999}[id.Name]
	}

	fatal("%s: integer literal expected", pos(e))

	return 0
}

func strLit(e ast.Expr) string {
	if bl, ok := e.(*ast.BasicLit); ok && bl.Kind == token.STRING {
		s, err := strconv.Unquote(bl.Value)
		if err == nil {
			return s
		}
	}

	fatal("%s: string literal expected", pos(e))

	return ""
}

func kvs(cl *ast.CompositeLit, what string) map[string]ast.Expr {
	m := map[string]ast.Expr{}

	for _, el := range cl.Elts {
		kv, ok := el.(*ast.KeyValueExpr)
		if !ok {
			fatal("%s: positional field in %s literal", pos(el), what)
		}

		id, ok := kv.Key.(*ast.Ident)
		if !ok {
			fatal("%s: non-identifier field key in %s literal", pos(el), what)
		}

		m[id.Name] = kv.Value
	}

	return m
}

func isSel(e ast.Expr, pkg, name string) bool {
	sel, ok := e.(*ast.SelectorExpr)
	if !ok {
		return false
	}

	id, ok := sel.X.(*ast.Ident)

	return ok && id.Name == pkg && sel.Sel.Name == name
}

// parseFunction decodes one `data.Function{…}` literal.
// resolve replaces an identifier that names a parameter of a table-helper function (mathFunc(name, fn))
// by the argument expression of the call being expanded.
func resolve(e ast.Expr, subst map[string]ast.Expr) ast.Expr {
	if id, ok := e.(*ast.Ident); ok && subst != nil {
		if r, ok := subst[id.Name]; ok {
			return r
		}
	}

	return e
}

func parseFunction(pkg, key string, cl *ast.CompositeLit, imports map[string]string, subst map[string]ast.Expr) fn {
	f := fn{Pkg: pkg, Name: key, Pos: pos(cl), Params: []string{}, Returns: []string{}}

	for name, v := range kvs(cl, "data.Function") {
		switch name {
		case "Declaration":
			u, ok := v.(*ast.UnaryExpr)
			if !ok || u.Op != token.AND {
				fatal("%s: Declaration is not &data.Declaration{…}", pos(v))
			}

			dl, ok := u.X.(*ast.CompositeLit)
			if !ok || !isSel(dl.Type, "data", "Declaration") {
				fatal("%s: Declaration is not &data.Declaration{…}", pos(v))
			}

			for dn, dv := range kvs(dl, "data.Declaration") {
				switch dn {
				case "Name":
					f.DeclName = strLit(resolve(dv, subst))
				case "Type":
					f.Receiver = true
				case "Variadic":
					f.Variadic = boolLit(dv)
				case "Scope":
					_ = boolLit(dv)
				case "ArgCount":
					rl, ok := dv.(*ast.CompositeLit)
					if !ok || !isSel(rl.Type, "data", "Range") || len(rl.Elts) != 2 {
						fatal("%s: ArgCount is not data.Range{a, b}", pos(dv))
					}

					f.ArgCount = [2]int{intLit(rl.Elts[0]), intLit(rl.Elts[1])}
				case "Parameters":
					pl, ok := dv.(*ast.CompositeLit)
					if !ok {
						fatal("%s: Parameters is not a literal", pos(dv))
					}

					for _, pe := range pl.Elts {
						pc, ok := pe.(*ast.CompositeLit)
						if !ok {
							fatal("%s: parameter is not a literal", pos(pe))
						}

						pm := kvs(pc, "data.Parameter")
						for pk := range pm {
							if pk != "Name" && pk != "Type" && pk != "Sandboxed" {
								fatal("%s: unknown data.Parameter field %s", pos(pc), pk)
							}
						}

						if pm["Type"] == nil {
							fatal("%s: parameter without Type", pos(pc))
						}

						t := typeExpr(pm["Type"])
						if pm["Sandboxed"] != nil && boolLit(pm["Sandboxed"]) {
							t = "sandboxed:" + t
						}

						f.Params = append(f.Params, t)
					}
				case "Returns":
					rl, ok := dv.(*ast.CompositeLit)
					if !ok {
						fatal("%s: Returns is not a literal", pos(dv))
					}

					for _, re := range rl.Elts {
						f.Returns = append(f.Returns, typeExpr(re))
					}
				default:
					fatal("%s: unknown data.Declaration field %s", pos(dl), dn)
				}
			}
		case "Value":
			switch x := resolve(v, subst).(type) {
			case *ast.Ident:
				f.Value = "local:" + x.Name
			case *ast.SelectorExpr:
				id, ok := x.X.(*ast.Ident)
				if !ok {
					fatal("%s: Value selector not understood", pos(v))
				}

				path, ok := imports[id.Name]
				if !ok {
					fatal("%s: Value refers to unknown import %s", pos(v), id.Name)
				}

				if strings.Contains(path, ".") {
					f.Value = "mod:" + path + "." + x.Sel.Name
				} else {
					f.Value = "go:" + path + "." + x.Sel.Name
				}
			default:
				fatal("%s: Value expression not understood", pos(v))
			}
		case "IsNative":
			f.Native = boolLit(v)
		case "Sandboxed", "Extension", "Context":
			_ = boolLit(v)
		default:
			fatal("%s: unknown data.Function field %s", pos(cl), name)
		}
	}

	if f.Value == "" {
		fatal("%s: function %s.%s has no Value", pos(cl), pkg, key)
	}

	return f
}

// parsePackage finds data.NewPackageFromMap("<pkg>", map[string]any{…}) in the directory.
func parsePackage(repo, pkg string) ([]fn, []other) {
	dir := filepath.Join(repo, "internal", "runtime", pkg)

	ents, err := os.ReadDir(dir)
	if err != nil {
		fatal("%v", err)
	}

	var (
		fns   []fn
		oth   []other
		found int
	)

	type parsed struct {
		file    *ast.File
		imports map[string]string
	}

	var files []parsed

	helpers := map[string]*ast.FuncDecl{}

	for _, e := range ents {
		if e.IsDir() || !strings.HasSuffix(e.Name(), ".go") || strings.HasSuffix(e.Name(), "_test.go") {
			continue
		}

		file, err := parser.ParseFile(fset, filepath.Join(dir, e.Name()), nil, 0)
		if err != nil {
			fatal("%v", err)
		}

		imports := map[string]string{}

		for _, im := range file.Imports {
			path := strLit(im.Path)
			name := path[strings.LastIndex(path, "/")+1:]

			if im.Name != nil {
				name = im.Name.Name
			}

			imports[name] = path
		}

		for _, d := range file.Decls {
			if fd, ok := d.(*ast.FuncDecl); ok && fd.Recv == nil {
				helpers[fd.Name.Name] = fd
			}
		}

		files = append(files, parsed{file, imports})
	}

	for _, pf := range files {
		file, imports := pf.file, pf.imports

		ast.Inspect(file, func(n ast.Node) bool {
			call, ok := n.(*ast.CallExpr)
			if !ok || !isSel(call.Fun, "data", "NewPackageFromMap") {
				return true
			}

			if len(call.Args) != 2 {
				fatal("%s: NewPackageFromMap with %d arguments", pos(call), len(call.Args))
			}

			if got := strLit(call.Args[0]); got != pkg {
				fatal("%s: package literal named %q in directory %s", pos(call), got, pkg)
			}

			ml, ok := call.Args[1].(*ast.CompositeLit)
			if !ok {
				fatal("%s: package map is not a literal", pos(call))
			}

			found++

			for _, el := range ml.Elts {
				kv, ok := el.(*ast.KeyValueExpr)
				if !ok {
					fatal("%s: package map element without key", pos(el))
				}

				key := strLit(kv.Key)

				if cl, ok := kv.Value.(*ast.CompositeLit); ok && isSel(cl.Type, "data", "Function") {
					fns = append(fns, parseFunction(pkg, key, cl, imports, nil))

					continue
				}

				// table helper: mathFunc("Abs", math.Abs) — a package-local function whose whole body is
				// `return data.Function{…}`; expand it with its parameters replaced by the call arguments.
				if call, ok := kv.Value.(*ast.CallExpr); ok {
					if id, ok := call.Fun.(*ast.Ident); ok {
						fd := helpers[id.Name]
						if fd == nil || len(fd.Body.List) != 1 {
							fatal("%s: package entry %s calls %s, which is not a one-statement table helper", pos(el), key, id.Name)
						}

						ret, ok := fd.Body.List[0].(*ast.ReturnStmt)
						if !ok || len(ret.Results) != 1 {
							fatal("%s: table helper %s is not `return data.Function{…}`", pos(el), id.Name)
						}

						cl, ok := ret.Results[0].(*ast.CompositeLit)
						if !ok || !isSel(cl.Type, "data", "Function") {
							fatal("%s: table helper %s is not `return data.Function{…}`", pos(el), id.Name)
						}

						subst := map[string]ast.Expr{}
						i := 0

						for _, fl := range fd.Type.Params.List {
							for _, nm := range fl.Names {
								if i >= len(call.Args) {
									fatal("%s: too few arguments to table helper %s", pos(el), id.Name)
								}

								subst[nm.Name] = call.Args[i]
								i++
							}
						}

						f := parseFunction(pkg, key, cl, imports, subst)
						f.Pos = pos(el)
						fns = append(fns, f)

						continue
					}
				}

				kind := "value"

				switch v := kv.Value.(type) {
				case *ast.Ident:
					kind = "ident:" + v.Name
				case *ast.BasicLit:
					kind = "const"
				case *ast.SelectorExpr, *ast.CallExpr, *ast.CompositeLit, *ast.UnaryExpr, *ast.BinaryExpr:
					kind = "expr"
				default:
					fatal("%s: package entry %s not understood", pos(el), key)
				}

				oth = append(oth, other{Pkg: pkg, Name: key, Kind: kind})
			}

			return false
		})
	}

	if found != 1 {
		fatal("package %s: %d NewPackageFromMap literals found (want 1)", pkg, found)
	}

	sort.Slice(fns, func(i, j int) bool { return fns[i].Name < fns[j].Name })
	sort.Slice(oth, func(i, j int) bool { return oth[i].Name < oth[j].Name })

	return fns, oth
}

// ---------------------------------------------------------------- Lean rendering

var leanScalar = map[string]string{
	"string": ".str", "int": ".int", "int8": ".int8", "int16": ".int16", "int32": ".int32", "int64": ".int64",
	"byte": ".byte", "uint16": ".uint16", "uint32": ".uint32", "uint64": ".uint64", "uint": ".uint",
	"float32": ".f32", "float64": ".f64", "bool": ".bool", "complex64": ".c64", "complex128": ".c128",
	"any": ".any", "error": ".err", "own": ".own", "func": ".func", "struct": ".struct", "void": ".void",
	"nil": ".void", "chan": ".other \"chan\"", "type": ".other \"type\"", "undefined": ".other \"undefined\"",
}

func leanTy(t string) string {
	switch {
	case strings.HasPrefix(t, "sandboxed:"):
		return "(.sandboxed " + leanTy(t[len("sandboxed:"):]) + ")"
	case strings.HasPrefix(t, "[]"):
		return "(.arr " + leanTy(t[2:]) + ")"
	case strings.HasPrefix(t, "*"):
		return "(.ptr " + leanTy(t[1:]) + ")"
	case strings.HasPrefix(t, "map["):
		return "(.other " + strconv.Quote(t) + ")"
	case strings.HasPrefix(t, "named:"):
		return "(.named " + strconv.Quote(t[6:]) + ")"
	}

	if s, ok := leanScalar[t]; ok {
		return s
	}

	fatal("no Lean rendering for type %q", t)

	return ""
}

func leanList(ts []string) string {
	parts := make([]string, len(ts))
	for i, t := range ts {
		parts[i] = leanTy(t)
	}

	return "[" + strings.Join(parts, ", ") + "]"
}

func leanGen(fns []fn) string {
	var b strings.Builder

	b.WriteString("import EgoVerif.C11.Props\n/- GENERATED by tools/extract_c11 from the current source tree; do not edit. -/\n")
	b.WriteString("namespace EgoVerif.C11.Gen\nopen EgoVerif.C11\n\n")

	const chunk = 40

	n := 0

	for i := 0; i < len(fns); i += chunk {
		j := min(i+chunk, len(fns))

		fmt.Fprintf(&b, "def table%d : List FnDecl := [\n", n)

		for k, f := range fns[i:j] {
			sep := ","
			if k == j-i-1 {
				sep = ""
			}

			fmt.Fprintf(&b, "  { pkg := %q, name := %q, params := %s, variadic := %v, returns := %s, native := %v, receiver := %v, value := %q }%s\n",
				f.Pkg, f.Name, leanList(f.Params), f.Variadic, leanList(f.Returns), f.Native, f.Receiver, f.Value, sep)
		}

		b.WriteString("]\n")
		fmt.Fprintf(&b, "theorem table%d_ok : tableOk table%d = true := by decide +kernel\n\n", n, n)

		n++
	}

	b.WriteString("def table : List FnDecl := ")

	for k := 0; k < n; k++ {
		if k > 0 {
			b.WriteString(" ++ ")
		}

		fmt.Fprintf(&b, "table%d", k)
	}

	if n == 0 {
		b.WriteString("[]")
	}

	b.WriteString("\n\n/-- Every function of every mirrored package meets its per-function obligation: a native\n    pass-through function only has parameter / result types for which the conversion is proved\n    faithful (C11_conv_roundtrip, C11_conv_faithful). -/\n")
	b.WriteString("theorem table_ok : tableOk table = true := by\n  unfold table\n  simp [tableOk_append")

	for k := 0; k < n; k++ {
		fmt.Fprintf(&b, ", table%d_ok", k)
	}

	b.WriteString("]\n\n")
	b.WriteString("theorem native_faithful : ∀ f ∈ table, f.native = true → FaithfulDecl f :=\n  fun f hf hn => tableOk_sound table table_ok f hf hn\n\n")
	fmt.Fprintf(&b, "example : table.length = %d := by decide +kernel\n", len(fns))
	b.WriteString("end EgoVerif.C11.Gen\n")

	return b.String()
}

func main() {
	repo := flag.String("repo", ".", "repository root")
	out := flag.String("out", ".", "output directory")
	pkgs := flag.String("pkgs", "strings,strconv,math,sort,filepath,base64,json,time,fmt,cmplx", "mirrored packages")
	flag.Parse()

	var (
		all []fn
		oth []other
	)

	for _, p := range strings.Split(*pkgs, ",") {
		f, o := parsePackage(*repo, p)
		all = append(all, f...)
		oth = append(oth, o...)
	}

	doc := map[string]any{"functions": all, "others": oth}

	b, err := json.MarshalIndent(doc, "", " ")
	if err != nil {
		fatal("%v", err)
	}

	if err := os.WriteFile(filepath.Join(*out, "c11_table.json"), b, 0o644); err != nil {
		fatal("%v", err)
	}

	if err := os.WriteFile(filepath.Join(*out, "C11Gen.lean"), []byte(leanGen(all)), 0o644); err != nil {
		fatal("%v", err)
	}

	nat := 0

	for _, f := range all {
		if f.Native {
			nat++
		}
	}

	fmt.Printf("extract_c11: %d functions (%d native pass-through, %d wrappers), %d other package entries\n",
		len(all), nat, len(all)-nat, len(oth))
}
