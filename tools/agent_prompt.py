#!/usr/bin/env python3
import sys
ids = sys.argv[1].split("+")
extra = sys.argv[2] if len(sys.argv) > 2 else ""
wt = "/verif-wt/" + ids[0]
names = " and ".join(ids)
print(f"""You are extending a verification framework for the Go project tucats/ego (source in /repo, read-only for you).
The framework proves semantic properties with machine-checked Lean 4 proofs over executable models, and ties each
model to the real Go code with a differential ("correspondence") harness. Your job: build the complete check for
propert{'ies' if len(ids)>1 else 'y'} {names}.

WORK ONLY in the git worktree {wt} (branch wt-{ids[0]}, a checkout of /verif). Never edit /verif itself, never edit /repo
(if you need a modified copy of the repo, rsync it to /var/tmp/agent-{ids[0]}/repo, point VERIF_REPO at it, and delete it when done).
Each shell call: `export GOFLAGS=-mod=mod GOPROXY=off` (leave GOTOOLCHAIN alone). No network exists.

READ FIRST, in {wt}:
  1. CONVENTIONS.md (the contract: file layout, what to deliver, verdict logic, build commands)
  2. the worked example C19: lean/EgoVerif/C19/*.lean, harness/overlay/internal/util/zz_verif_c19_test.go, checks/C19.py, verifpy/lib.py
  3. the property text: `grep '"id": "{ids[0]}"' properties.jsonl | python3 -m json.tool` (same for the other ids)
  4. DESIGN.md section "### {ids[0]} —" (and sections 2-4): the planned model, theorems, tie and the defects already seen.
  5. the Go code the property is anchored in (anchors.files in the property).

DELIVER (all under {wt}, committed on the branch with `git add` of ONLY your own files — do not add lean/Main.lean or MANIFEST.json):
  * lean/EgoVerif/<Cxx>/Model.lean, Props.lean, Driver.lean   * harness/overlay/<pkg>/zz_verif_<cxx>_test.go
  * checks/<Cxx>.py with META and run(ctx)
  * known findings, if any, as a JSON list in known_findings.d/<Cxx>.json (same entry format as known_findings.json "findings")
  * a proposed repair as fixes/<Cxx>.patch (unified diff against /repo, `git apply`-able) when the current code genuinely
    violates the property AND the repair is small (≲ 25 changed lines), behaviour-correcting, something a maintainer would accept
    and leaves the repo's own tests of that package passing. With a fix, the Lean model mirrors the FIXED code, the full theorem is
    proved, and you validate with VERIF_REPO pointing at a patched copy; ALSO confirm the check reports a VIOLATION with a
    concrete failing input against the unpatched /repo. Without a fix: `_counterexample` + `_partial` theorems and a
    known-finding class; the check must then print KNOWN-FINDING and exit 0 on /repo.
Quality bar: theorems quantify over ALL inputs/histories (induction, not sampling), the model mirrors the code that exists
(not what it should do), the harness exercises the REAL functions, the oracle is independent of the model, generators are
hostile and structured, `distinct_nontrivial` is measured. The check must be quiet (exit 0, no VIOLATION) on the unchanged
tree for VERIF_SEED in 1 2 3 7 12345, quick and thorough; quick ≤ ~2 min wall, thorough ≤ ~15 min. It must DETECT realistic
breakage: before finishing, hand-make 2–3 plausible property-breaking edits in a scratch copy of the repo (VERIF_REPO) and
confirm the check reports VIOLATION with a failing input for each; strengthen generators if it misses.
Priority order if time is short: (1) sound oracle + harness, (2) faithful model + correspondence, (3) main theorem fully
proved, (4) secondary theorems. Never leave `sorry`; a statement you cannot prove stays as `def …_statement : Prop` and is
mentioned in META["note"]. Aim to finish within ~2 hours.
{extra}
FINAL REPORT (your last message, concise): theorem names with their statements in one line each; what the harness runs
and the oracle; defects found (witness input, fix patch or known-finding class); mutation trials and which were caught;
quick/thorough wall times; the commit hash on the branch; anything left unproved.""")
