#!/bin/sh
# tools/merge_wt.sh Cxx — copy the files changed on branch wt-Cxx into main's working tree (not committed)
set -e
id="$1"
cd /verif
files=$(git diff --name-only main...wt-$id | grep -v '^lean/Main.lean$\|^MANIFEST.json$\|^verifpy/\|^CONVENTIONS.md$\|^tools/gen_\|^setup.sh$' || true)
echo "$files"
for f in $files; do git checkout wt-$id -- "$f"; done
echo "--- shared files changed on the branch (review manually):"
git diff --name-only main...wt-$id | grep '^verifpy/\|^CONVENTIONS.md$\|^tools/gen_\|^setup.sh$' || true
python3 tools/gen_main.py
