#!/usr/bin/env python3
"""tools/verify_seed.py <Cxx-n> [...]

Confirm a seeded change delivered by a sub-agent in /tmp/seed-<Cxx-n>/SEED and run the property's check against it:
  1. fresh scratch worktree of /repo HEAD (outside /repo and /verif), `go generate`
  2. demonstration on the unchanged tree            -> must pass
  3. apply patch.diff; `go build ./...`; pinned suite -> must pass
  4. demonstration with the change                  -> must fail
  5. VERIF_REPO=<worktree> ./check Cxx quick        -> VIOLATION expected (caught) or exit 0 (missed)
Results are written to /verif/seeded/<Cxx-n>/{patch.diff, demo*, meta.json}; the worktree is removed.
"""
import json, os, re, shutil, subprocess, sys, time

ENV = dict(os.environ, GOFLAGS="-mod=mod", GOPROXY="off")


def sh(cmd, cwd, timeout=3600, env=None):
    p = subprocess.run(cmd, cwd=cwd, shell=True, env=env or ENV, stdout=subprocess.PIPE, stderr=subprocess.STDOUT,
                       text=True, timeout=timeout)
    return p.returncode, p.stdout


def main(tag):
    pid = tag.split("-")[0]
    src = "/tmp/seed-%s/SEED" % tag
    if not os.path.isdir(src):      # re-verification of a kept seed
        src = "/var/tmp/reseed-%s" % tag
        shutil.rmtree(src, ignore_errors=True)
        shutil.copytree("/verif/seeded/%s" % tag, src)
    meta = json.load(open(os.path.join(src, "meta.json")))
    wt = "/tmp/vs-%s" % tag
    out = {"tag": tag, "steps": {}}
    subprocess.run(["git", "-C", "/repo", "worktree", "remove", "--force", wt], stderr=subprocess.DEVNULL)
    rc, o = sh("git -C /repo worktree add -q --detach %s HEAD" % wt, "/")
    try:
        shutil.copytree(src, os.path.join(wt, "SEED"))
        rc, o = sh("go generate ./...", wt, 1200)
        out["steps"]["generate"] = rc
        demo = meta["demo"].replace("&amp;", "&")
        # the demo line is free text: pick out the `cp SEED/x dest` copies and the `go test …` command
        copies = re.findall(r"cp\s+(SEED/\S+)\s+(\S+)", demo)
        msh = re.search(r"\b(?:ba)?sh\s+(SEED/\S+\.sh)", demo)
        m = re.search(r"go test[^;&(\n`]*", demo)
        if msh:
            cmd = "bash " + msh.group(1)
        elif m:
            gotest = re.sub(r"^go test ", "go test -trimpath ", m.group(0).strip())
            cmd = " && ".join(["cp %s %s" % c for c in copies] + [gotest])
        else:
            raise RuntimeError("no runnable command in demo: " + demo)
        rc0, o0 = sh(cmd, wt, 2400)
        out["steps"]["demo_unchanged_rc"] = rc0
        out["demo_unchanged_tail"] = o0[-600:]
        sh("git clean -fdq -e SEED -e internal/cli/app/lib.zip -e internal/i18n/messages.go . ; git checkout -- .", wt)
        rc, o = sh("git apply SEED/patch.diff", wt)
        out["steps"]["apply"] = rc
        if rc != 0:
            out["apply_out"] = o[-800:]
        rcb, ob = sh("go build -trimpath ./...", wt, 3000)
        out["steps"]["build"] = rcb
        rcp, op = sh("go test -trimpath -vet=off -count=1 ./internal/util/javascript/ ./tools/langlint/", wt, 1800)
        out["steps"]["pinned"] = rcp
        rc1, o1 = sh(cmd, wt, 2400)
        out["steps"]["demo_changed_rc"] = rc1
        out["demo_changed_tail"] = o1[-800:]
        # remove the demo copy so that it cannot influence the check
        sh("git clean -fdq -e SEED -e internal/cli/app/lib.zip -e internal/i18n/messages.go .", wt)
        t0 = time.time()
        env = dict(ENV, VERIF_REPO=wt, VERIF_EVIDENCE_DIR="/var/tmp/seed-evidence", VERIF_REPLAY_DIR="/var/tmp/seed-replay/" + tag)
        rcc, oc = sh("./check %s quick" % pid, "/verif", 5400, env)
        out["check_rc"] = rcc
        out["check_wall_s"] = round(time.time() - t0)
        vio = [l for l in oc.splitlines() if l.startswith("VIOLATION")]
        out["check_verdict"] = vio[0] if vio else oc.strip().splitlines()[-1][-300:] if oc.strip() else ""
        replay = None
        if vio:
            m = re.search(r"replay=(\S+)", vio[0])
            if m and os.path.exists(m.group(1)):
                replay = json.load(open(m.group(1)))
        dst = "/verif/seeded/%s" % tag
        os.makedirs(dst, exist_ok=True)
        for f in os.listdir(src):
            shutil.copy(os.path.join(src, f), os.path.join(dst, f))
        confirmed = (rc0 == 0 and out["steps"]["apply"] == 0 and rcb == 0 and rcp == 0 and rc1 != 0)
        meta["property"] = pid
        meta["confirmed_by_us"] = {
            "repo_head": subprocess.run(["git", "-C", "/repo", "rev-parse", "--short", "HEAD"], capture_output=True, text=True).stdout.strip(),
            "demo_passes_unchanged": rc0 == 0, "patch_applies": out["steps"]["apply"] == 0, "builds": rcb == 0,
            "pinned_suite_passes": rcp == 0, "demo_fails_with_change": rc1 != 0, "all": confirmed,
            "ran": ["go generate ./...", cmd, "git apply SEED/patch.diff", "go build ./...",
                    "go test ./internal/util/javascript/ ./tools/langlint/", cmd, "VERIF_REPO=<worktree> ./check %s quick" % pid],
        }
        caught = bool(vio)
        meta["check_result"] = {"rc": rcc, "verdict": out["check_verdict"], "wall_s": out["check_wall_s"],
                                "failing_input_found": caught and "no-failing-input-found" not in vio[0]}
        if caught:
            meta["caught_by"] = "./check %s quick" % pid
            if replay:
                fl = replay.get("failures") or []
                meta["check_result"]["first_failure"] = fl[0] if fl else {"broken": replay.get("broken", [])[:3]}
        else:
            meta["caught_by"] = ""
        json.dump(meta, open(os.path.join(dst, "meta.json"), "w"), indent=1)
        out["confirmed"] = confirmed
        out["caught"] = caught
    finally:
        subprocess.run(["git", "-C", "/repo", "worktree", "remove", "--force", wt], stderr=subprocess.DEVNULL)
        shutil.rmtree(wt, ignore_errors=True)
    print(json.dumps(out, indent=1))
    return out


if __name__ == "__main__":
    for t in sys.argv[1:]:
        try:
            main(t)
        except Exception as e:  # keep going
            print("ERROR", t, e)
