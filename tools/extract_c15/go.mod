module extractc15

go 1.21
