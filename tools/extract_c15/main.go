// extract_c15 — translator T1 for property C15.
//
// Reads the CURRENT Go source of internal/sqlparse/ast, internal/sqlparse/analyze.go,
// internal/server/tables/sql_permissions.go and internal/server/tables/scripting/authz.go and
// emits, as Lean data (and as JSON for the harness cross-check):
//
//   - the schema of every AST node struct: which fields can hold AST nodes (with the static
//     element type) and which fields its Children() method really hands to nodes() — taking into
//     account that nodes() silently drops an argument whose static type is neither Node nor []Node;
//   - for every case of the type switch in Sqlparse.Tables(): the ordered list of
//     read / write / admin actions and the struct fields they are applied to;
//   - the type → StatementKind map of Sqlparse.StatementKind();
//   - writePermissionForKind (both copies) and isSchemaAlteringKind;
//   - the shape of the generic traversal ast.Walk (visit.go): the function that really recurses, how
//     many parameters it carries besides (node, fn), every condition under which it returns before
//     descending that is not the nil test or the callback's own answer, and whether it recurses into
//     every element of node.Children() unconditionally (a depth / node budget shows up here).
//
// stdlib go/ast only.  Fails closed: any syntax in an extracted region that is not one of the
// recognised shapes is an error (exit 1), never a skip.
package main

import (
	"encoding/json"
	"fmt"
	"go/ast"
	"go/parser"
	"go/printer"
	"go/token"
	"os"
	"path/filepath"
	"sort"
	"strings"
)

type field struct {
	Name string `json:"name"`
	Elem string `json:"elem"` // "Node" (interface) or the concrete struct name
	Mult string `json:"mult"` // one | many | many2
	// exact []Node / [][]Node (needed to model nodes()'s type switch)
	sliceOfNode bool
}

type nodeSchema struct {
	Ty         string   `json:"ty"`
	IsStmt     bool     `json:"isStmt"`
	NodeFields []field  `json:"nodeFields"`
	StrFields  []string `json:"strFields"`
	Visited    []string `json:"visited"`
}

type action struct {
	Op    string `json:"op"` // readSelf | read | write | adminRef | adminStr
	Field string `json:"field"`
}

type stmtCase struct {
	Ty      string   `json:"ty"`
	Kind    string   `json:"kind"`
	Actions []action `json:"actions"`
}

type output struct {
	Schema          []nodeSchema      `json:"schema"`
	Cases           []stmtCase        `json:"cases"`
	WritePermSQL    map[string]string `json:"writePermSql"`       // kind → permission const, "" key = default
	WritePermTx     map[string]string `json:"writePermScripting"` // same for scripting/authz.go
	SchemaAltering  []string          `json:"schemaAltering"`
	AdminSkipsEmpty bool              `json:"adminSkipsEmpty"`
	WriteSkipsEmpty bool              `json:"writeSkipsEmpty"`
	Walk            walkFacts         `json:"walk"`
}

// walkFacts: what ast.Walk does besides "call fn, then recurse into every child".
type walkFacts struct {
	Recursor    string   `json:"recursor"`    // the function that recurses (Walk itself, or the helper it hands over to)
	ExtraParams int      `json:"extraParams"` // parameters of the recursor besides (node, fn)
	NilGuard    bool     `json:"nilGuard"`    // returns on node == nil || isNil(node)
	PruneGuard  bool     `json:"pruneGuard"`  // returns when fn(node) is false
	OtherGuards []string `json:"otherGuards"` // any other condition under which it returns without descending
	AllChildren bool     `json:"allChildren"` // for _, c := range node.Children() { recursor(c, fn, …) } with nothing else in the loop
}

func die(format string, a ...any) {
	fmt.Fprintf(os.Stderr, "extract_c15: "+format+"\n", a...)
	os.Exit(1)
}

var fset = token.NewFileSet()

func parseDir(dir string) []*ast.File {
	ents, err := os.ReadDir(dir)
	if err != nil {
		die("%v", err)
	}

	var files []*ast.File

	for _, e := range ents {
		n := e.Name()
		if e.IsDir() || !strings.HasSuffix(n, ".go") || strings.HasSuffix(n, "_test.go") {
			continue
		}

		f, err := parser.ParseFile(fset, filepath.Join(dir, n), nil, 0)
		if err != nil {
			die("%v", err)
		}
		// honour build constraints minimally: skip files tagged for the harness
		files = append(files, f)
	}

	return files
}

func parseFile(path string) *ast.File {
	f, err := parser.ParseFile(fset, path, nil, 0)
	if err != nil {
		die("%v", err)
	}

	return f
}

func pos(n ast.Node) string { return fset.Position(n.Pos()).String() }

// ---------------------------------------------------------------- ast package: structs

type structInfo struct {
	name   string
	fields []*ast.Field
	decl   *ast.StructType
}

var (
	structs    = map[string]*structInfo{}
	namedBasic = map[string]bool{}                     // named non-struct, non-interface types (LitKind, Kind, ...)
	ifaces     = map[string]bool{}                     // interface types declared in the package
	methods    = map[string]map[string]*ast.FuncDecl{} // receiver type → method name → decl
)

var basic = map[string]bool{"string": true, "bool": true, "int": true, "int8": true, "int16": true, "int32": true,
	"int64": true, "uint": true, "uint8": true, "uint16": true, "uint32": true, "uint64": true, "float32": true,
	"float64": true, "byte": true, "rune": true}

func recvName(fd *ast.FuncDecl) string {
	if fd.Recv == nil || len(fd.Recv.List) != 1 {
		return ""
	}

	t := fd.Recv.List[0].Type
	if s, ok := t.(*ast.StarExpr); ok {
		t = s.X
	}

	if id, ok := t.(*ast.Ident); ok {
		return id.Name
	}

	return ""
}

func isNodeStruct(name string) bool {
	_, ok := structs[name]
	if !ok {
		return false
	}

	m := methods[name]

	return m != nil && m["Children"] != nil && m["Kind"] != nil
}

// scalarType reports whether a type expression can never hold an AST node.
func scalarType(e ast.Expr, seen map[string]bool) bool {
	switch t := e.(type) {
	case *ast.Ident:
		if basic[t.Name] || namedBasic[t.Name] {
			return true
		}

		if si, ok := structs[t.Name]; ok && !isNodeStruct(t.Name) {
			if seen[t.Name] {
				return true
			}

			seen[t.Name] = true

			for _, f := range si.fields {
				if !scalarType(f.Type, seen) {
					return false
				}
			}

			return true
		}

		return false
	case *ast.StarExpr:
		if id, ok := t.X.(*ast.Ident); ok && isNodeStruct(id.Name) {
			return false
		}

		return scalarType(t.X, seen)
	case *ast.ArrayType:
		return scalarType(t.Elt, seen)
	default:
		return false
	}
}

// nodeElem classifies a type that holds exactly one node: the interface Node or *T for a node struct T.
func nodeElem(e ast.Expr) (string, bool) {
	switch t := e.(type) {
	case *ast.Ident:
		if t.Name == "Node" && ifaces["Node"] {
			return "Node", true
		}

		if t.Name == "Statement" && ifaces["Statement"] {
			return "Node", true
		}
	case *ast.StarExpr:
		if id, ok := t.X.(*ast.Ident); ok && isNodeStruct(id.Name) {
			return id.Name, true
		}
	}

	return "", false
}

func classifyField(owner string, f *ast.Field, name string) (field, bool) {
	if el, ok := nodeElem(f.Type); ok {
		return field{Name: name, Elem: el, Mult: "one"}, true
	}

	if a, ok := f.Type.(*ast.ArrayType); ok && a.Len == nil {
		if el, ok := nodeElem(a.Elt); ok {
			return field{Name: name, Elem: el, Mult: "many", sliceOfNode: el == "Node" && isIdent(a.Elt, "Node")}, true
		}

		if a2, ok := a.Elt.(*ast.ArrayType); ok && a2.Len == nil {
			if el, ok := nodeElem(a2.Elt); ok {
				return field{Name: name, Elem: el, Mult: "many2", sliceOfNode: isIdent(a2.Elt, "Node")}, true
			}
		}
	}

	if scalarType(f.Type, map[string]bool{}) {
		return field{}, false
	}

	die("%s: field %s.%s has a type this translator does not understand", pos(f), owner, name)

	return field{}, false
}

func isIdent(e ast.Expr, name string) bool {
	id, ok := e.(*ast.Ident)

	return ok && id.Name == name
}

// flatten returns the (name, *ast.Field) pairs of a struct, expanding embedded structs.
func flatten(name string, depth int) (out []struct {
	n string
	f *ast.Field
}, embeds []string) {
	if depth > 8 {
		die("embedding too deep at %s", name)
	}

	si := structs[name]
	for _, f := range si.fields {
		if len(f.Names) == 0 {
			id, ok := f.Type.(*ast.Ident)
			if !ok || structs[id.Name] == nil {
				die("%s: struct %s embeds something that is not a plain struct of this package", pos(f), name)
			}

			embeds = append(embeds, id.Name)
			sub, subEmb := flatten(id.Name, depth+1)
			out = append(out, sub...)
			embeds = append(embeds, subEmb...)

			continue
		}

		for _, n := range f.Names {
			out = append(out, struct {
				n string
				f *ast.Field
			}{n.Name, f})
		}
	}

	return out, embeds
}

// ---------------------------------------------------------------- Children() bodies

// selField matches `recv.Field`.
func selField(e ast.Expr, recv string) (string, bool) {
	s, ok := e.(*ast.SelectorExpr)
	if !ok {
		return "", false
	}

	if id, ok := s.X.(*ast.Ident); ok && id.Name == recv {
		return s.Sel.Name, true
	}

	return "", false
}

func childrenVisited(ty string, fd *ast.FuncDecl, fields map[string]field) []string {
	recv := ""
	if len(fd.Recv.List[0].Names) == 1 {
		recv = fd.Recv.List[0].Names[0].Name
	}

	locals := map[string]string{} // local slice variable → the field it is a copy of
	pendingMake := map[string]string{}
	pendingVar := map[string]bool{}

	var visited []string

	returned := false

	for _, st := range fd.Body.List {
		if returned {
			die("%s: statements after return in %s.Children", pos(st), ty)
		}

		switch s := st.(type) {
		case *ast.ReturnStmt:
			returned = true

			if len(s.Results) != 1 {
				die("%s: %s.Children: unexpected return", pos(s), ty)
			}

			if isIdent(s.Results[0], "nil") {
				continue
			}

			call, ok := s.Results[0].(*ast.CallExpr)
			if !ok || !isIdent(call.Fun, "nodes") || call.Ellipsis != token.NoPos {
				die("%s: %s.Children does not return nil or nodes(...)", pos(s), ty)
			}

			for _, a := range call.Args {
				if f, ok := selField(a, recv); ok {
					fi, isNode := fields[f]
					if !isNode {
						die("%s: %s.Children passes non-node field %s to nodes()", pos(a), ty, f)
					}
					// nodes() only understands Node and []Node; a []*T or [][]Node argument compiles
					// (the parameter is interface{}) but falls through its type switch and is DROPPED.
					if fi.Mult == "one" || (fi.Mult == "many" && fi.sliceOfNode) {
						visited = append(visited, f)
					} else {
						fmt.Fprintf(os.Stderr, "extract_c15: note: %s.Children passes %s (%s of %s) directly to nodes(); it is dropped\n",
							ty, f, fi.Mult, fi.Elem)
					}

					continue
				}

				if id, ok := a.(*ast.Ident); ok {
					if f, ok := locals[id.Name]; ok {
						visited = append(visited, f)

						continue
					}
				}

				die("%s: %s.Children: argument of nodes() is neither a field nor a recognised local copy", pos(a), ty)
			}
		case *ast.AssignStmt:
			// x := make([]Node, len(n.F))
			if s.Tok != token.DEFINE || len(s.Lhs) != 1 || len(s.Rhs) != 1 {
				die("%s: %s.Children: unrecognised assignment", pos(s), ty)
			}

			lhs, ok := s.Lhs[0].(*ast.Ident)
			call, ok2 := s.Rhs[0].(*ast.CallExpr)

			if !ok || !ok2 || !isIdent(call.Fun, "make") || len(call.Args) != 2 || !isSliceOfNode(call.Args[0]) {
				die("%s: %s.Children: unrecognised assignment", pos(s), ty)
			}

			ln, ok := call.Args[1].(*ast.CallExpr)
			if !ok || !isIdent(ln.Fun, "len") || len(ln.Args) != 1 {
				die("%s: %s.Children: make without len(field)", pos(s), ty)
			}

			f, ok := selField(ln.Args[0], recv)
			if !ok {
				die("%s: %s.Children: make without len(field)", pos(s), ty)
			}

			pendingMake[lhs.Name] = f
		case *ast.DeclStmt:
			// var all []Node
			gd, ok := s.Decl.(*ast.GenDecl)
			if !ok || gd.Tok != token.VAR || len(gd.Specs) != 1 {
				die("%s: %s.Children: unrecognised declaration", pos(s), ty)
			}

			vs := gd.Specs[0].(*ast.ValueSpec)
			if len(vs.Names) != 1 || len(vs.Values) != 0 || !isSliceOfNode(vs.Type) {
				die("%s: %s.Children: unrecognised declaration", pos(s), ty)
			}

			pendingVar[vs.Names[0].Name] = true
		case *ast.RangeStmt:
			f, ok := selField(s.X, recv)
			if !ok || len(s.Body.List) != 1 {
				die("%s: %s.Children: unrecognised loop", pos(s), ty)
			}

			as, ok := s.Body.List[0].(*ast.AssignStmt)
			if !ok || len(as.Lhs) != 1 || len(as.Rhs) != 1 || as.Tok != token.ASSIGN {
				die("%s: %s.Children: unrecognised loop body", pos(s), ty)
			}

			fi, isNode := fields[f]
			if !isNode {
				die("%s: %s.Children: loop over non-node field %s", pos(s), ty, f)
			}

			// shape A:  for i, c := range n.F { x[i] = c }
			if ix, ok := as.Lhs[0].(*ast.IndexExpr); ok {
				x, ok1 := ix.X.(*ast.Ident)
				i, ok2 := ix.Index.(*ast.Ident)
				k, ok3 := s.Key.(*ast.Ident)
				v, ok4 := s.Value.(*ast.Ident)
				c, ok5 := as.Rhs[0].(*ast.Ident)

				if !(ok1 && ok2 && ok3 && ok4 && ok5) || i.Name != k.Name || c.Name != v.Name ||
					pendingMake[x.Name] != f || fi.Mult != "many" {
					die("%s: %s.Children: unrecognised copy loop", pos(s), ty)
				}

				locals[x.Name] = f

				continue
			}

			// shape B:  for _, row := range n.F { all = append(all, row...) }
			x, ok1 := as.Lhs[0].(*ast.Ident)
			call, ok2 := as.Rhs[0].(*ast.CallExpr)
			v, ok3 := s.Value.(*ast.Ident)

			if !(ok1 && ok2 && ok3) || !isIdent(call.Fun, "append") || len(call.Args) != 2 ||
				call.Ellipsis == token.NoPos || !isIdent(call.Args[0], x.Name) || !isIdent(call.Args[1], v.Name) ||
				!pendingVar[x.Name] || fi.Mult != "many2" || !fi.sliceOfNode {
				die("%s: %s.Children: unrecognised flatten loop", pos(s), ty)
			}

			locals[x.Name] = f
		default:
			die("%s: %s.Children: unrecognised statement", pos(st), ty)
		}
	}

	if !returned {
		die("%s.Children has no return", ty)
	}

	return visited
}

func render(n ast.Node) string {
	var b strings.Builder

	if err := printer.Fprint(&b, fset, n); err != nil {
		die("%s: cannot print: %v", pos(n), err)
	}

	return strings.Join(strings.Fields(b.String()), " ")
}

// disjuncts splits a || b || c.
func disjuncts(e ast.Expr) []ast.Expr {
	if p, ok := e.(*ast.ParenExpr); ok {
		return disjuncts(p.X)
	}

	if b, ok := e.(*ast.BinaryExpr); ok && b.Op == token.LOR {
		return append(disjuncts(b.X), disjuncts(b.Y)...)
	}

	return []ast.Expr{e}
}

func isCallOn(e ast.Expr, fn, arg string) bool {
	c, ok := e.(*ast.CallExpr)

	return ok && len(c.Args) == 1 && isIdent(c.Fun, fn) && isIdent(c.Args[0], arg)
}

// walkShape reads ast.Walk.  Recognised: an optional hand-over `helper(node, fn, …)` as the whole body of
// Walk; in the recursor a sequence of `if COND { return }` followed by exactly one
// `for _, c := range node.Children() { recursor(c, fn, …) }`.  Everything else is an error.
func walkShape(files []*ast.File) walkFacts {
	funcs := map[string]*ast.FuncDecl{}

	for _, f := range files {
		for _, d := range f.Decls {
			if fd, ok := d.(*ast.FuncDecl); ok && fd.Recv == nil {
				funcs[fd.Name.Name] = fd
			}
		}
	}

	fd := funcs["Walk"]
	if fd == nil || fd.Body == nil {
		die("ast.Walk not found")
	}

	params := func(fd *ast.FuncDecl) []string {
		var out []string

		for _, p := range fd.Type.Params.List {
			if len(p.Names) == 0 {
				die("%s: unnamed parameter of %s", pos(fd), fd.Name.Name)
			}

			for _, n := range p.Names {
				out = append(out, n.Name)
			}
		}

		return out
	}

	ps := params(fd)
	if len(ps) != 2 {
		die("%s: ast.Walk does not take (node, fn)", pos(fd))
	}

	w := walkFacts{Recursor: "Walk", OtherGuards: []string{}}

	// hand-over: the whole body is one call helper(node, fn, …)
	if len(fd.Body.List) == 1 {
		if es, ok := fd.Body.List[0].(*ast.ExprStmt); ok {
			c, ok := es.X.(*ast.CallExpr)
			if !ok {
				die("%s: ast.Walk: statement not understood", pos(es))
			}

			id, ok := c.Fun.(*ast.Ident)
			if !ok || funcs[id.Name] == nil || id.Name == "Walk" || len(c.Args) < 2 || !isIdent(c.Args[0], ps[0]) || !isIdent(c.Args[1], ps[1]) {
				die("%s: ast.Walk hands over to something this translator does not understand", pos(es))
			}

			fd = funcs[id.Name]
			ps = params(fd)
			w.Recursor = id.Name

			if len(ps) != len(c.Args) || fd.Body == nil {
				die("%s: %s: parameter list not understood", pos(fd), id.Name)
			}
		}
	}

	w.ExtraParams = len(ps) - 2
	node, fn := ps[0], ps[1]

	if fd.Type.Results != nil && len(fd.Type.Results.List) > 0 {
		die("%s: %s returns a value", pos(fd), fd.Name.Name)
	}

	loops := 0

	for _, st := range fd.Body.List {
		switch x := st.(type) {
		case *ast.IfStmt:
			if loops > 0 {
				die("%s: %s: statement after the loop over the children", pos(st), fd.Name.Name)
			}

			if x.Init != nil || x.Else != nil || len(x.Body.List) != 1 {
				die("%s: %s: an if that is not `if COND { return }`", pos(st), fd.Name.Name)
			}

			if ret, ok := x.Body.List[0].(*ast.ReturnStmt); !ok || len(ret.Results) != 0 {
				die("%s: %s: an if that is not `if COND { return }`", pos(st), fd.Name.Name)
			}

			for _, d := range disjuncts(x.Cond) {
				switch {
				case neq2(d, token.EQL, node, "nil"), isCallOn(d, "isNil", node):
					w.NilGuard = true
				case isNotCall(d, fn, node):
					w.PruneGuard = true
				default:
					w.OtherGuards = append(w.OtherGuards, render(d))
				}
			}
		case *ast.RangeStmt:
			loops++

			call, ok := x.X.(*ast.CallExpr)
			if !ok || len(call.Args) != 0 {
				die("%s: %s: range over something that is not node.Children()", pos(st), fd.Name.Name)
			}

			sel, ok := call.Fun.(*ast.SelectorExpr)
			if !ok || !isIdent(sel.X, node) || sel.Sel.Name != "Children" {
				die("%s: %s: range over something that is not node.Children()", pos(st), fd.Name.Name)
			}

			child, ok := x.Value.(*ast.Ident)
			if !ok || (x.Key != nil && !isIdent(x.Key, "_")) {
				die("%s: %s: range variables not understood", pos(st), fd.Name.Name)
			}

			w.AllChildren = false

			if len(x.Body.List) == 1 {
				if es, ok := x.Body.List[0].(*ast.ExprStmt); ok {
					if c, ok := es.X.(*ast.CallExpr); ok && isIdent(c.Fun, w.Recursor) && len(c.Args) == len(ps) &&
						isIdent(c.Args[0], child.Name) && isIdent(c.Args[1], fn) {
						w.AllChildren = true
					}
				}
			}

			if !w.AllChildren {
				w.OtherGuards = append(w.OtherGuards, "loop body: "+render(x.Body))
			}
		default:
			die("%s: %s: statement not understood: %s", pos(st), fd.Name.Name, render(st))
		}
	}

	if loops != 1 {
		die("%s: %s: %d loops over the children", pos(fd), fd.Name.Name, loops)
	}

	return w
}

// neq2: <id> <op> <lit identifier>
func neq2(e ast.Expr, op token.Token, id, rhs string) bool {
	b, ok := e.(*ast.BinaryExpr)

	return ok && b.Op == op && isIdent(b.X, id) && isIdent(b.Y, rhs)
}

// isNotCall: !fn(arg)
func isNotCall(e ast.Expr, fn, arg string) bool {
	u, ok := e.(*ast.UnaryExpr)

	return ok && u.Op == token.NOT && isCallOn(u.X, fn, arg)
}

func isSliceOfNode(e ast.Expr) bool {
	a, ok := e.(*ast.ArrayType)

	return ok && a.Len == nil && isIdent(a.Elt, "Node")
}

// ---------------------------------------------------------------- analyze.go

// astType matches `*ast.T` and returns T.
func astType(e ast.Expr) (string, bool) {
	s, ok := e.(*ast.StarExpr)
	if !ok {
		return "", false
	}

	sel, ok := s.X.(*ast.SelectorExpr)
	if !ok || !isIdent(sel.X, "ast") {
		return "", false
	}

	return sel.Sel.Name, true
}

func findMethod(f *ast.File, recv, name string) *ast.FuncDecl {
	for _, d := range f.Decls {
		if fd, ok := d.(*ast.FuncDecl); ok && fd.Name.Name == name && recvName(fd) == recv {
			return fd
		}
	}

	die("method %s.%s not found", recv, name)

	return nil
}

func findFunc(f *ast.File, name string) *ast.FuncDecl {
	for _, d := range f.Decls {
		if fd, ok := d.(*ast.FuncDecl); ok && fd.Name.Name == name && fd.Recv == nil {
			return fd
		}
	}

	die("function %s not found", name)

	return nil
}

func statementKinds(f *ast.File) map[string]string {
	fd := findMethod(f, "Sqlparse", "StatementKind")
	res := map[string]string{}

	var sw *ast.TypeSwitchStmt

	for _, st := range fd.Body.List {
		if s, ok := st.(*ast.TypeSwitchStmt); ok {
			sw = s
		} else {
			die("%s: StatementKind: unexpected statement", pos(st))
		}
	}

	if sw == nil {
		die("StatementKind: no type switch")
	}

	for _, c := range sw.Body.List {
		cc := c.(*ast.CaseClause)
		if len(cc.Body) != 1 {
			die("%s: StatementKind: case body is not a single return", pos(cc))
		}

		r, ok := cc.Body[0].(*ast.ReturnStmt)
		if !ok || len(r.Results) != 1 {
			die("%s: StatementKind: case body is not a single return", pos(cc))
		}

		id, ok := r.Results[0].(*ast.Ident)
		if !ok {
			die("%s: StatementKind: return of a non-constant", pos(r))
		}

		if cc.List == nil {
			res[""] = id.Name

			continue
		}

		for _, t := range cc.List {
			ty, ok := astType(t)
			if !ok {
				die("%s: StatementKind: case is not *ast.T", pos(t))
			}

			res[ty] = id.Name
		}
	}

	return res
}

// appendUsage matches `out = append(out, TableUsage{Name: <name>, Usage: <usage>})` and returns <name>.
func appendUsage(st ast.Stmt, usage string) (ast.Expr, bool) {
	as, ok := st.(*ast.AssignStmt)
	if !ok || as.Tok != token.ASSIGN || len(as.Lhs) != 1 || len(as.Rhs) != 1 || !isIdent(as.Lhs[0], "out") {
		return nil, false
	}

	call, ok := as.Rhs[0].(*ast.CallExpr)
	if !ok || !isIdent(call.Fun, "append") || len(call.Args) != 2 || !isIdent(call.Args[0], "out") {
		return nil, false
	}

	cl, ok := call.Args[1].(*ast.CompositeLit)
	if !ok || !isIdent(cl.Type, "TableUsage") || len(cl.Elts) != 2 {
		return nil, false
	}

	var name ast.Expr

	for _, e := range cl.Elts {
		kv, ok := e.(*ast.KeyValueExpr)
		if !ok {
			return nil, false
		}

		switch {
		case isIdent(kv.Key, "Name"):
			name = kv.Value
		case isIdent(kv.Key, "Usage"):
			if !isIdent(kv.Value, usage) {
				return nil, false
			}
		default:
			return nil, false
		}
	}

	return name, name != nil
}

// notEmpty matches `<id> != ""`; notNil matches `<id> != nil`.
func neq(e ast.Expr, id string, rhs func(ast.Expr) bool) bool {
	b, ok := e.(*ast.BinaryExpr)

	return ok && b.Op == token.NEQ && isIdent(b.X, id) && rhs(b.Y)
}

func isEmptyString(e ast.Expr) bool {
	l, ok := e.(*ast.BasicLit)

	return ok && l.Kind == token.STRING && l.Value == `""`
}

func isTableRefNameOf(e ast.Expr, id string) bool {
	c, ok := e.(*ast.CallExpr)

	return ok && isIdent(c.Fun, "tableRefName") && len(c.Args) == 1 && isIdent(c.Args[0], id)
}

var adminSkipsEmpty, writeSkipsEmpty bool

// closureShapes recognises the bodies of the admin / write / read closures of Tables() (both the
// guarded and the unguarded spelling of admin and write) and fails closed on anything else.
func closureShapes(cl map[string]*ast.FuncLit) {
	param := func(fl *ast.FuncLit) string {
		if len(fl.Type.Params.List) != 1 || len(fl.Type.Params.List[0].Names) != 1 {
			die("%s: Tables: closure with unexpected parameters", pos(fl))
		}

		return fl.Type.Params.List[0].Names[0].Name
	}

	// ---- admin
	a := cl["admin"]
	pn := param(a)

	if len(a.Body.List) != 1 {
		die("%s: Tables: admin closure has an unrecognised body", pos(a))
	}

	if name, ok := appendUsage(a.Body.List[0], "UsageAdmin"); ok && isIdent(name, pn) {
		adminSkipsEmpty = false
	} else if ifs, ok := a.Body.List[0].(*ast.IfStmt); ok && ifs.Init == nil && ifs.Else == nil &&
		neq(ifs.Cond, pn, isEmptyString) && len(ifs.Body.List) == 1 {
		name, ok := appendUsage(ifs.Body.List[0], "UsageAdmin")
		if !ok || !isIdent(name, pn) {
			die("%s: Tables: admin closure has an unrecognised body", pos(a))
		}

		adminSkipsEmpty = true
	} else {
		die("%s: Tables: admin closure has an unrecognised body", pos(a))
	}

	// ---- write
	w := cl["write"]
	pn = param(w)

	ifs, ok := (ast.Stmt)(nil).(*ast.IfStmt)
	if len(w.Body.List) == 1 {
		ifs, ok = w.Body.List[0].(*ast.IfStmt)
	}

	if !ok || ifs.Else != nil || len(ifs.Body.List) != 1 {
		die("%s: Tables: write closure has an unrecognised body", pos(w))
	}

	name, okA := appendUsage(ifs.Body.List[0], "UsageWrite")
	if !okA {
		die("%s: Tables: write closure has an unrecognised body", pos(w))
	}

	switch {
	case ifs.Init == nil && neq(ifs.Cond, pn, func(e ast.Expr) bool { return isIdent(e, "nil") }) && isTableRefNameOf(name, pn):
		writeSkipsEmpty = false
	case ifs.Init != nil:
		// if name := tableRefName(ref); name != "" { … Name: name … }
		as, ok := ifs.Init.(*ast.AssignStmt)
		if !ok || as.Tok != token.DEFINE || len(as.Lhs) != 1 || len(as.Rhs) != 1 || !isTableRefNameOf(as.Rhs[0], pn) {
			die("%s: Tables: write closure has an unrecognised body", pos(w))
		}

		v := as.Lhs[0].(*ast.Ident).Name
		if !neq(ifs.Cond, v, isEmptyString) || !isIdent(name, v) {
			die("%s: Tables: write closure has an unrecognised body", pos(w))
		}

		writeSkipsEmpty = true
	default:
		die("%s: Tables: write closure has an unrecognised body", pos(w))
	}

	// ---- read:  for _, n := range nodes { ast.Walk(n, func(node ast.Node) bool { if ref, ok := node.(*ast.TableRef); ok { append } ; return true }) }
	r := cl["read"]
	pn = param(r)
	bad := func() { die("%s: Tables: read closure has an unrecognised body", pos(r)) }

	if len(r.Body.List) != 1 {
		bad()
	}

	rs, ok := r.Body.List[0].(*ast.RangeStmt)
	if !ok || !isIdent(rs.X, pn) || len(rs.Body.List) != 1 {
		bad()
	}

	es, ok := rs.Body.List[0].(*ast.ExprStmt)
	if !ok {
		bad()
	}

	call, ok := es.X.(*ast.CallExpr)
	if !ok || len(call.Args) != 2 {
		bad()
	}

	sel, ok := call.Fun.(*ast.SelectorExpr)
	if !ok || !isIdent(sel.X, "ast") || sel.Sel.Name != "Walk" || !isIdent(call.Args[0], rs.Value.(*ast.Ident).Name) {
		bad()
	}

	cb, ok := call.Args[1].(*ast.FuncLit)
	if !ok || len(cb.Body.List) != 2 {
		bad()
	}

	node := param(cb)

	cif, ok := cb.Body.List[0].(*ast.IfStmt)
	if !ok || cif.Else != nil || cif.Init == nil || len(cif.Body.List) != 1 || !isIdent(cif.Cond, "ok") {
		bad()
	}

	ias, ok := cif.Init.(*ast.AssignStmt)
	if !ok || len(ias.Lhs) != 2 || len(ias.Rhs) != 1 || !isIdent(ias.Lhs[1], "ok") {
		bad()
	}

	ta, ok := ias.Rhs[0].(*ast.TypeAssertExpr)
	if !ok || !isIdent(ta.X, node) {
		bad()
	}

	if ty, ok := astType(ta.Type); !ok || ty != "TableRef" {
		bad()
	}

	nm, ok := appendUsage(cif.Body.List[0], "UsageRead")
	if !ok || !isTableRefNameOf(nm, ias.Lhs[0].(*ast.Ident).Name) {
		bad()
	}

	ret, ok := cb.Body.List[1].(*ast.ReturnStmt)
	if !ok || len(ret.Results) != 1 || !isIdent(ret.Results[0], "true") {
		bad()
	}
}

func tablesCases(f *ast.File, schema map[string]*nodeSchema, kinds map[string]string) []stmtCase {
	fd := findMethod(f, "Sqlparse", "Tables")

	var sw *ast.TypeSwitchStmt

	closures := map[string]*ast.FuncLit{}

	for _, st := range fd.Body.List {
		switch s := st.(type) {
		case *ast.DeclStmt: // var out []TableUsage
		case *ast.AssignStmt: // admin := func…, write := func…, read := func…
			if s.Tok != token.DEFINE || len(s.Lhs) != 1 {
				die("%s: Tables: unexpected assignment", pos(s))
			}

			fl, ok := s.Rhs[0].(*ast.FuncLit)
			if !ok {
				die("%s: Tables: unexpected assignment", pos(s))
			}

			closures[s.Lhs[0].(*ast.Ident).Name] = fl
		case *ast.TypeSwitchStmt:
			if sw != nil {
				die("%s: Tables: second type switch", pos(s))
			}

			sw = s
		case *ast.ReturnStmt:
			if len(s.Results) != 1 || !isIdent(s.Results[0], "out") {
				die("%s: Tables: does not return out", pos(s))
			}
		default:
			die("%s: Tables: unexpected statement", pos(st))
		}
	}

	for _, c := range []string{"admin", "write", "read"} {
		if closures[c] == nil {
			die("Tables: closure %s not found", c)
		}
	}

	closureShapes(closures)

	if sw == nil {
		die("Tables: no type switch")
	}

	as, ok := sw.Assign.(*ast.AssignStmt)
	if !ok {
		die("Tables: type switch does not bind a variable")
	}

	v := as.Lhs[0].(*ast.Ident).Name

	var cases []stmtCase

	for _, c := range sw.Body.List {
		cc := c.(*ast.CaseClause)
		if cc.List == nil {
			if len(cc.Body) != 0 {
				die("%s: Tables: default case with a body", pos(cc))
			}

			continue
		}

		var tys []string

		for _, t := range cc.List {
			ty, ok := astType(t)
			if !ok {
				die("%s: Tables: case is not *ast.T", pos(t))
			}

			tys = append(tys, ty)
		}

		if len(tys) > 1 && len(cc.Body) != 0 {
			die("%s: Tables: multi-type case with a body", pos(cc))
		}

		for _, ty := range tys {
			ns := schema[ty]
			if ns == nil {
				die("%s: Tables: case for unknown node type %s", pos(cc), ty)
			}

			fields := map[string]field{}
			for _, fi := range ns.NodeFields {
				fields[fi.Name] = fi
			}

			strs := map[string]bool{}
			for _, s := range ns.StrFields {
				strs[s] = true
			}

			sc := stmtCase{Ty: ty, Kind: kinds[ty], Actions: []action{}}
			if sc.Kind == "" {
				die("Tables: %s has no StatementKind", ty)
			}

			for _, st := range cc.Body {
				sc.Actions = append(sc.Actions, caseActions(ty, v, st, fields, strs)...)
			}

			cases = append(cases, sc)
		}
	}

	return cases
}

func caseActions(ty, v string, st ast.Stmt, fields map[string]field, strs map[string]bool) []action {
	var out []action

	switch s := st.(type) {
	case *ast.ExprStmt:
		call, ok := s.X.(*ast.CallExpr)
		if !ok {
			die("%s: Tables/%s: unexpected expression statement", pos(s), ty)
		}

		fn, ok := call.Fun.(*ast.Ident)
		if !ok {
			die("%s: Tables/%s: unexpected call", pos(s), ty)
		}

		switch fn.Name {
		case "read":
			if call.Ellipsis != token.NoPos {
				// read(s.F...)  — F must be exactly []Node
				if len(call.Args) != 1 {
					die("%s: Tables/%s: read(x...) with several arguments", pos(s), ty)
				}

				f, ok := selField(call.Args[0], v)
				if !ok || fields[f].Mult != "many" || !fields[f].sliceOfNode {
					die("%s: Tables/%s: read(x...) of something that is not a []Node field", pos(s), ty)
				}

				return []action{{"read", f}}
			}

			for _, a := range call.Args {
				if isIdent(a, v) {
					out = append(out, action{"readSelf", ""})

					continue
				}

				f, ok := selField(a, v)
				if !ok || fields[f].Mult != "one" {
					die("%s: Tables/%s: read argument is not the statement or a single-node field", pos(a), ty)
				}

				out = append(out, action{"read", f})
			}
		case "write":
			if len(call.Args) != 1 {
				die("%s: Tables/%s: write arity", pos(s), ty)
			}

			f, ok := selField(call.Args[0], v)
			if !ok || fields[f].Mult != "one" || fields[f].Elem != "TableRef" {
				die("%s: Tables/%s: write argument is not a *TableRef field", pos(s), ty)
			}

			out = append(out, action{"write", f})
		case "admin":
			if len(call.Args) != 1 {
				die("%s: Tables/%s: admin arity", pos(s), ty)
			}

			if inner, ok := call.Args[0].(*ast.CallExpr); ok {
				if !isIdent(inner.Fun, "tableRefName") || len(inner.Args) != 1 {
					die("%s: Tables/%s: admin(f(...)) with f != tableRefName", pos(s), ty)
				}

				f, ok := selField(inner.Args[0], v)
				if !ok || fields[f].Mult != "one" || fields[f].Elem != "TableRef" {
					die("%s: Tables/%s: tableRefName argument is not a *TableRef field", pos(s), ty)
				}

				out = append(out, action{"adminRef", f})

				break
			}

			f, ok := selField(call.Args[0], v)
			if !ok || !strs[f] {
				die("%s: Tables/%s: admin argument is not a string field", pos(s), ty)
			}

			out = append(out, action{"adminStr", f})
		default:
			die("%s: Tables/%s: call of %s", pos(s), ty, fn.Name)
		}
	case *ast.RangeStmt:
		// for _, x := range s.F { read(x) }
		f, ok := selField(s.X, v)
		val, ok2 := s.Value.(*ast.Ident)

		if !ok || !ok2 || len(s.Body.List) != 1 || (fields[f].Mult != "many") {
			die("%s: Tables/%s: unrecognised loop", pos(s), ty)
		}

		es, ok := s.Body.List[0].(*ast.ExprStmt)
		if !ok {
			die("%s: Tables/%s: unrecognised loop body", pos(s), ty)
		}

		call, ok := es.X.(*ast.CallExpr)
		if !ok || !isIdent(call.Fun, "read") || len(call.Args) != 1 || !isIdent(call.Args[0], val.Name) ||
			call.Ellipsis != token.NoPos {
			die("%s: Tables/%s: unrecognised loop body", pos(s), ty)
		}

		out = append(out, action{"read", f})
	default:
		die("%s: Tables/%s: unexpected statement", pos(st), ty)
	}

	return out
}

// ---------------------------------------------------------------- authz helpers

// kindSwitch extracts `switch kind { case sqlparse.A, sqlparse.B: return X … default: return Y }`.
func kindSwitch(fd *ast.FuncDecl) map[string]string {
	res := map[string]string{}

	if len(fd.Body.List) != 1 {
		die("%s: %s: body is not a single switch", pos(fd), fd.Name.Name)
	}

	sw, ok := fd.Body.List[0].(*ast.SwitchStmt)
	if !ok || sw.Init != nil {
		die("%s: %s: body is not a single switch", pos(fd), fd.Name.Name)
	}

	for _, c := range sw.Body.List {
		cc := c.(*ast.CaseClause)
		if len(cc.Body) != 1 {
			die("%s: %s: case body is not one return", pos(cc), fd.Name.Name)
		}

		r, ok := cc.Body[0].(*ast.ReturnStmt)
		if !ok || len(r.Results) != 1 {
			die("%s: %s: case body is not one return", pos(cc), fd.Name.Name)
		}

		val := ""

		switch x := r.Results[0].(type) {
		case *ast.Ident:
			val = x.Name
		case *ast.SelectorExpr:
			val = x.Sel.Name
		default:
			die("%s: %s: return of a non-constant", pos(r), fd.Name.Name)
		}

		if cc.List == nil {
			res[""] = val

			continue
		}

		for _, e := range cc.List {
			sel, ok := e.(*ast.SelectorExpr)
			if !ok || !isIdent(sel.X, "sqlparse") {
				die("%s: %s: case is not sqlparse.X", pos(e), fd.Name.Name)
			}

			res[sel.Sel.Name] = val
		}
	}

	return res
}

// ---------------------------------------------------------------- emit

func q(s string) string { return fmt.Sprintf("%q", s) }

func qlist(l []string) string {
	p := make([]string, len(l))
	for i, s := range l {
		p[i] = q(s)
	}

	return "[" + strings.Join(p, ", ") + "]"
}

func emitLean(o *output) string {
	var b strings.Builder

	b.WriteString("-- GENERATED by tools/extract_c15 from the current Go source — do not edit\n")
	b.WriteString("namespace EgoVerif.C15.Gen\nopen EgoVerif.C15\n\n")
	b.WriteString("def schema : Schema := [\n")

	for i, n := range o.Schema {
		fs := make([]string, len(n.NodeFields))
		for j, f := range n.NodeFields {
			fs[j] = "(" + q(f.Name) + ", " + q(f.Elem) + ")"
		}

		sep := ","
		if i == len(o.Schema)-1 {
			sep = ""
		}

		fmt.Fprintf(&b, "  { ty := %s, isStmt := %v, nodeFields := [%s], visited := %s }%s\n",
			q(n.Ty), n.IsStmt, strings.Join(fs, ", "), qlist(n.Visited), sep)
	}

	b.WriteString("]\n\ndef cases : List StmtCase := [\n")

	for i, c := range o.Cases {
		as := make([]string, len(c.Actions))
		for j, a := range c.Actions {
			if a.Op == "readSelf" {
				as[j] = ".readSelf"
			} else {
				as[j] = "." + a.Op + " " + q(a.Field)
			}
		}

		sep := ","
		if i == len(o.Cases)-1 {
			sep = ""
		}

		fmt.Fprintf(&b, "  { ty := %s, kind := %s, actions := [%s] }%s\n", q(c.Ty), q(c.Kind), strings.Join(as, ", "), sep)
	}

	b.WriteString("]\n\n")

	emitMap := func(name string, m map[string]string) {
		keys := []string{}
		for k := range m {
			if k != "" {
				keys = append(keys, k)
			}
		}

		sort.Strings(keys)

		ps := make([]string, len(keys))
		for i, k := range keys {
			ps[i] = "(" + q(k) + ", " + q(m[k]) + ")"
		}

		fmt.Fprintf(&b, "def %s : PermMap := { cases := [%s], dflt := %s }\n", name, strings.Join(ps, ", "), q(m[""]))
	}

	emitMap("writePermSql", o.WritePermSQL)
	emitMap("writePermScripting", o.WritePermTx)
	fmt.Fprintf(&b, "def schemaAltering : List String := %s\n", qlist(o.SchemaAltering))
	fmt.Fprintf(&b, "def cfg : Cfg := { adminSkipsEmpty := %v, writeSkipsEmpty := %v }\n",
		o.AdminSkipsEmpty, o.WriteSkipsEmpty)
	fmt.Fprintf(&b, "def walkFacts : WalkFacts := ⟨%s, %d, %v, %v, %s, %v⟩\n\nend EgoVerif.C15.Gen\n",
		q(o.Walk.Recursor), o.Walk.ExtraParams, o.Walk.NilGuard, o.Walk.PruneGuard, qlist(o.Walk.OtherGuards), o.Walk.AllChildren)

	return b.String()
}

func main() {
	if len(os.Args) < 3 {
		die("usage: extract_c15 <repo root> <out dir>")
	}

	root, outDir := os.Args[1], os.Args[2]

	// ---- ast package
	files := parseDir(filepath.Join(root, "internal/sqlparse/ast"))

	var order []string

	for _, f := range files {
		for _, d := range f.Decls {
			switch x := d.(type) {
			case *ast.GenDecl:
				if x.Tok != token.TYPE {
					continue
				}

				for _, sp := range x.Specs {
					ts := sp.(*ast.TypeSpec)
					switch t := ts.Type.(type) {
					case *ast.StructType:
						structs[ts.Name.Name] = &structInfo{name: ts.Name.Name, fields: t.Fields.List, decl: t}
						order = append(order, ts.Name.Name)
					case *ast.InterfaceType:
						ifaces[ts.Name.Name] = true
					case *ast.Ident:
						if !basic[t.Name] {
							die("%s: named type %s over non-basic %s", pos(ts), ts.Name.Name, t.Name)
						}

						namedBasic[ts.Name.Name] = true
					default:
						die("%s: type %s has a shape this translator does not understand", pos(ts), ts.Name.Name)
					}
				}
			case *ast.FuncDecl:
				if r := recvName(x); r != "" {
					if methods[r] == nil {
						methods[r] = map[string]*ast.FuncDecl{}
					}

					methods[r][x.Name.Name] = x
				}
			}
		}
	}

	sort.Strings(order)

	o := &output{}
	o.Walk = walkShape(files)
	schema := map[string]*nodeSchema{}

	for _, name := range order {
		if !isNodeStruct(name) {
			// a struct without Kind/Children must never hold nodes itself
			if !scalarType(&ast.Ident{Name: name}, map[string]bool{}) {
				die("struct %s is not a node but holds nodes", name)
			}

			continue
		}

		ch := methods[name]["Children"]
		if _, ok := ch.Recv.List[0].Type.(*ast.StarExpr); !ok {
			die("%s.Children does not have a pointer receiver", name)
		}

		flat, embeds := flatten(name, 0)
		ns := &nodeSchema{Ty: name, NodeFields: []field{}, StrFields: []string{}, Visited: []string{}}

		for _, e := range embeds {
			if e == "BaseStmt" {
				ns.IsStmt = true
			}
		}

		fields := map[string]field{}

		for _, nf := range flat {
			if fi, ok := classifyField(name, nf.f, nf.n); ok {
				ns.NodeFields = append(ns.NodeFields, fi)
				fields[nf.n] = fi
			} else if isIdent(nf.f.Type, "string") {
				ns.StrFields = append(ns.StrFields, nf.n)
			}
		}

		ns.Visited = append(ns.Visited, childrenVisited(name, ch, fields)...)
		schema[name] = ns
		o.Schema = append(o.Schema, *ns)
	}

	// the statementNode marker must come from BaseStmt only (sealed interface)
	for r, m := range methods {
		if m["statementNode"] != nil && r != "BaseStmt" {
			die("statementNode declared on %s, not only on BaseStmt", r)
		}
	}

	// ---- analyze.go
	an := parseFile(filepath.Join(root, "internal/sqlparse/analyze.go"))
	kinds := statementKinds(an)
	o.Cases = tablesCases(an, schema, kinds)
	o.AdminSkipsEmpty, o.WriteSkipsEmpty = adminSkipsEmpty, writeSkipsEmpty

	// ---- authz
	sp := parseFile(filepath.Join(root, "internal/server/tables/sql_permissions.go"))
	az := parseFile(filepath.Join(root, "internal/server/tables/scripting/authz.go"))
	o.WritePermSQL = kindSwitch(findFunc(sp, "writePermissionForKind"))
	o.WritePermTx = kindSwitch(findFunc(az, "writePermissionForKind"))

	alt := kindSwitch(findFunc(az, "isSchemaAlteringKind"))
	if alt[""] != "false" {
		die("isSchemaAlteringKind: default is not false")
	}

	for k, v := range alt {
		if k != "" {
			if v != "true" {
				die("isSchemaAlteringKind: case %s returns %s", k, v)
			}

			o.SchemaAltering = append(o.SchemaAltering, k)
		}
	}

	sort.Strings(o.SchemaAltering)

	if err := os.MkdirAll(outDir, 0o755); err != nil {
		die("%v", err)
	}

	js, _ := json.MarshalIndent(o, "", " ")
	if err := os.WriteFile(filepath.Join(outDir, "c15_gen.json"), js, 0o644); err != nil {
		die("%v", err)
	}

	if err := os.WriteFile(filepath.Join(outDir, "C15Gen.lean"), []byte(emitLean(o)), 0o644); err != nil {
		die("%v", err)
	}
}
