// extract_c09 lists every `go` statement of the interpreter packages of the tree given as
// argument (internal/language/bytecode, internal/runtime/**, internal/server/services;
// non-test files) with its enclosing function, callee text, and the source facts the Lean
// model classifies (EgoVerif.C09.Facts).  go/ast only; fails (exit 2) on a file it cannot parse.
package main

import (
	"encoding/json"
	"fmt"
	"go/ast"
	"go/parser"
	"go/printer"
	"go/token"
	"os"
	"path/filepath"
	"sort"
	"strconv"
	"strings"
)

type site struct {
	File   string `json:"file"`
	Func   string `json:"func"`
	Recv   string `json:"recv"`
	Line   int    `json:"line"`
	Callee string `json:"callee"`
	// facts, in the order of EgoVerif.C09.Facts
	LitBody           bool `json:"litBody"`
	WaitsOnDone       bool `json:"waitsOnDone"`
	DeferBefore       bool `json:"deferBefore"`
	DeferNext         bool `json:"deferNext"`
	SendsBuffered     bool `json:"sendsBuffered"`
	RecvOnEveryPath   bool `json:"recvOnEveryPath"`
	WgPaired          bool `json:"wgPaired"`
	CalleeRunsProgram bool `json:"calleeRunsProgram"`
	// evidence (not used by the model)
	DoneChans   []string `json:"doneChans,omitempty"`
	ResultChan  string   `json:"resultChan,omitempty"`
	NestedInLit bool     `json:"nestedInLit"`
}

var fset = token.NewFileSet()

func text(n ast.Node) string {
	var b strings.Builder
	_ = printer.Fprint(&b, fset, n)
	s := b.String()
	if i := strings.IndexByte(s, '\n'); i >= 0 {
		s = s[:i] + " …"
	}
	if len(s) > 80 {
		s = s[:80] + "…"
	}
	return s
}

// inspect walks n but does not descend into function literals other than `keep`.
func inspect(n ast.Node, keep *ast.FuncLit, f func(ast.Node) bool) {
	ast.Inspect(n, func(x ast.Node) bool {
		if l, ok := x.(*ast.FuncLit); ok && l != keep {
			return false
		}
		return f(x)
	})
}

// chansMade: `x := make(chan T[, n])` / `x = make(…)` / `var x = make(…)` anywhere in the function → capacity (0 = unbuffered, -1 = not a literal)
func chansMade(fd *ast.FuncDecl) map[string]int {
	res := map[string]int{}
	note := func(lhs ast.Expr, rhs ast.Expr) {
		id, ok := lhs.(*ast.Ident)
		if !ok {
			return
		}
		call, ok := rhs.(*ast.CallExpr)
		if !ok || len(call.Args) == 0 {
			return
		}
		if fn, ok := call.Fun.(*ast.Ident); !ok || fn.Name != "make" {
			return
		}
		if _, ok := call.Args[0].(*ast.ChanType); !ok {
			return
		}
		c := 0
		if len(call.Args) > 1 {
			c = -1
			if lit, ok := call.Args[1].(*ast.BasicLit); ok && lit.Kind == token.INT {
				if v, err := strconv.Atoi(lit.Value); err == nil {
					c = v
				}
			}
		}
		res[id.Name] = c
	}
	ast.Inspect(fd.Body, func(x ast.Node) bool {
		switch s := x.(type) {
		case *ast.AssignStmt:
			if len(s.Lhs) == len(s.Rhs) {
				for i := range s.Lhs {
					note(s.Lhs[i], s.Rhs[i])
				}
			}
		case *ast.ValueSpec:
			if len(s.Names) == len(s.Values) {
				for i := range s.Names {
					note(s.Names[i], s.Values[i])
				}
			}
		}
		return true
	})
	return res
}

func isRecvFrom(e ast.Expr, ch string) bool {
	u, ok := e.(*ast.UnaryExpr)
	if !ok || u.Op != token.ARROW {
		return false
	}
	id, ok := u.X.(*ast.Ident)
	return ok && id.Name == ch
}

// containsRecv: a receive from ch somewhere in n, outside nested function literals
func containsRecv(n ast.Node, ch string) bool {
	found := false
	if n == nil {
		return false
	}
	inspect(n, nil, func(x ast.Node) bool {
		if e, ok := x.(ast.Expr); ok && isRecvFrom(e, ch) {
			found = true
		}
		return !found
	})
	return found
}

func containsReturn(n ast.Node) bool {
	found := false
	if n == nil {
		return false
	}
	inspect(n, nil, func(x ast.Node) bool {
		if _, ok := x.(*ast.ReturnStmt); ok {
			found = true
		}
		return !found
	})
	return found
}

// closes: call `close(ch)` as the deferred call itself or inside the deferred function literal
func deferCloses(d *ast.DeferStmt, ch string) bool {
	isClose := func(c *ast.CallExpr) bool {
		id, ok := c.Fun.(*ast.Ident)
		if !ok || id.Name != "close" || len(c.Args) != 1 {
			return false
		}
		a, ok := c.Args[0].(*ast.Ident)
		return ok && a.Name == ch
	}
	if isClose(d.Call) {
		return true
	}
	lit, ok := d.Call.Fun.(*ast.FuncLit)
	if !ok {
		return false
	}
	// the close must be a top-level statement of the literal (unconditional)
	for _, s := range lit.Body.List {
		if es, ok := s.(*ast.ExprStmt); ok {
			if c, ok := es.X.(*ast.CallExpr); ok && isClose(c) {
				return true
			}
		}
	}
	return false
}

// stmtIsRecv: a simple statement that unconditionally receives from ch
func stmtIsRecv(s ast.Stmt, ch string) bool {
	switch x := s.(type) {
	case *ast.ExprStmt:
		return containsRecv(x.X, ch)
	case *ast.AssignStmt:
		for _, r := range x.Rhs {
			if containsRecv(r, ch) {
				return true
			}
		}
	case *ast.ReturnStmt:
		for _, r := range x.Results {
			if containsRecv(r, ch) {
				return true
			}
		}
	}
	return false
}

// mustRecv: every path through stmts receives from ch before it returns or falls off the end.
// Conservative: anything it does not understand that could return makes it false.
func mustRecv(stmts []ast.Stmt, ch string) bool {
	for _, s := range stmts {
		if stmtIsRecv(s, ch) {
			return true
		}
		switch x := s.(type) {
		case *ast.ReturnStmt:
			return false
		case *ast.BlockStmt:
			if mustRecv(x.List, ch) {
				return true
			}
			if containsReturn(x) {
				return false
			}
		case *ast.IfStmt:
			if (x.Init != nil && stmtIsRecv(x.Init, ch)) || containsRecv(x.Cond, ch) {
				return true
			}
			thenOK := mustRecv(x.Body.List, ch)
			elseOK := false
			switch e := x.Else.(type) {
			case *ast.BlockStmt:
				elseOK = mustRecv(e.List, ch)
			case *ast.IfStmt:
				elseOK = mustRecv([]ast.Stmt{e}, ch)
			}
			if thenOK && elseOK {
				return true
			}
			if (!thenOK && containsReturn(x.Body)) || (!elseOK && x.Else != nil && containsReturn(x.Else)) {
				return false
			}
		case *ast.SelectStmt:
			all := len(x.Body.List) > 0
			for _, c := range x.Body.List {
				cc := c.(*ast.CommClause)
				ok := (cc.Comm != nil && stmtIsRecv(cc.Comm, ch)) || mustRecv(cc.Body, ch)
				if !ok {
					all = false
					if containsReturn(cc) {
						return false
					}
				}
			}
			if all {
				return true
			}
		default:
			if containsReturn(s) {
				return false
			}
		}
	}
	return false
}

// hasOtherChanOps: channel operations / go statements in the literal body other than its final send
func hasOtherChanOps(body *ast.BlockStmt, last ast.Stmt, lit *ast.FuncLit) bool {
	found := false
	inspect(body, lit, func(x ast.Node) bool {
		if x == last {
			// look only inside the value being sent
			inspect(last.(*ast.SendStmt).Value, lit, func(y ast.Node) bool {
				if u, ok := y.(*ast.UnaryExpr); ok && u.Op == token.ARROW {
					found = true
				}
				return !found
			})
			return false
		}
		switch y := x.(type) {
		case *ast.SendStmt, *ast.SelectStmt, *ast.GoStmt:
			found = true
		case *ast.UnaryExpr:
			if y.Op == token.ARROW {
				found = true
			}
		case *ast.RangeStmt:
			_ = y
		}
		return !found
	})
	return found
}

func callsMethod(fd *ast.FuncDecl, recvName, method string, argc int) bool {
	found := false
	if fd == nil || fd.Body == nil {
		return false
	}
	ast.Inspect(fd.Body, func(x ast.Node) bool {
		c, ok := x.(*ast.CallExpr)
		if !ok || len(c.Args) != argc {
			return true
		}
		sel, ok := c.Fun.(*ast.SelectorExpr)
		if !ok || sel.Sel.Name != method {
			return true
		}
		if recvName != "" {
			id, ok := sel.X.(*ast.Ident)
			if !ok || id.Name != recvName {
				return true
			}
		}
		found = true
		return false
	})
	return found
}

func recvName(fd *ast.FuncDecl) string {
	if fd.Recv == nil || len(fd.Recv.List) == 0 {
		return ""
	}
	return text(fd.Recv.List[0].Type)
}

// analyse one `go` statement found in fd; parentList/idx locate it when it is an element of a block
func analyse(rel string, fd *ast.FuncDecl, g *ast.GoStmt, prev ast.Stmt, nested bool, funcs map[string]*ast.FuncDecl) site {
	s := site{File: rel, Func: fd.Name.Name, Recv: recvName(fd), Line: fset.Position(g.Pos()).Line,
		Callee: text(g.Call.Fun), NestedInLit: nested}
	chans := chansMade(fd)
	top := fd.Body.List
	topIdx := -1
	for i, st := range top {
		if st == ast.Stmt(g) {
			topIdx = i
		}
	}
	if lit, ok := g.Call.Fun.(*ast.FuncLit); ok {
		s.LitBody = true
		// channels of the enclosing function the body receives from
		seen := map[string]bool{}
		inspect(lit.Body, lit, func(x ast.Node) bool {
			if u, ok := x.(*ast.UnaryExpr); ok && u.Op == token.ARROW {
				if id, ok := u.X.(*ast.Ident); ok {
					if _, made := chans[id.Name]; made && !seen[id.Name] {
						seen[id.Name] = true
						s.DoneChans = append(s.DoneChans, id.Name)
					}
				}
			}
			return true
		})
		sort.Strings(s.DoneChans)
		s.WaitsOnDone = len(s.DoneChans) > 0
		for _, d := range s.DoneChans {
			for i, st := range top {
				ds, ok := st.(*ast.DeferStmt)
				if !ok || !deferCloses(ds, d) {
					continue
				}
				if ds.Pos() < g.Pos() {
					s.DeferBefore = true
				}
				if topIdx >= 0 && i == topIdx+1 {
					s.DeferNext = true
				}
			}
		}
		// result pattern: last statement sends on a buffered channel of the enclosing function
		if n := len(lit.Body.List); n > 0 {
			if snd, ok := lit.Body.List[n-1].(*ast.SendStmt); ok {
				if id, ok := snd.Chan.(*ast.Ident); ok {
					if c, made := chans[id.Name]; made && c >= 1 && !hasOtherChanOps(lit.Body, snd, lit) {
						s.SendsBuffered = true
						s.ResultChan = id.Name
						if topIdx >= 0 {
							s.RecvOnEveryPath = mustRecv(top[topIdx+1:], id.Name)
						}
					}
				}
			}
		}
		return s
	}
	// named callee
	var callee *ast.FuncDecl
	if id, ok := g.Call.Fun.(*ast.Ident); ok {
		callee = funcs[id.Name]
	}
	s.CalleeRunsProgram = callsMethod(callee, "", "Run", 0)
	if es, ok := prev.(*ast.ExprStmt); ok {
		if c, ok := es.X.(*ast.CallExpr); ok && len(c.Args) == 1 {
			if sel, ok := c.Fun.(*ast.SelectorExpr); ok && sel.Sel.Name == "Add" {
				if lit, ok := c.Args[0].(*ast.BasicLit); ok && lit.Value == "1" {
					if wg, ok := sel.X.(*ast.Ident); ok {
						s.WgPaired = callsMethod(callee, wg.Name, "Done", 0)
					}
				}
			}
		}
	}
	return s
}

// walk finds go statements with the statement preceding them in their block
func walk(rel string, fd *ast.FuncDecl, funcs map[string]*ast.FuncDecl, out *[]site) {
	var visit func(n ast.Node, nested bool)
	visitList := func(list []ast.Stmt, nested bool) {
		for i, st := range list {
			if g, ok := st.(*ast.GoStmt); ok {
				var prev ast.Stmt
				if i > 0 {
					prev = list[i-1]
				}
				*out = append(*out, analyse(rel, fd, g, prev, nested, funcs))
			}
			visit(st, nested)
		}
	}
	visit = func(n ast.Node, nested bool) {
		ast.Inspect(n, func(x ast.Node) bool {
			if x == n {
				return true
			}
			switch y := x.(type) {
			case *ast.BlockStmt:
				visitList(y.List, nested)
				return false
			case *ast.CaseClause:
				visitList(y.Body, nested)
				return false
			case *ast.CommClause:
				visitList(y.Body, nested)
				return false
			case *ast.FuncLit:
				visitList(y.Body.List, true)
				return false
			case *ast.GoStmt:
				// a go statement that is not an element of a statement list (labeled statement): fail closed
				*out = append(*out, analyse(rel, fd, y, nil, nested, funcs))
			}
			return true
		})
	}
	visitList(fd.Body.List, false)
}

func main() {
	if len(os.Args) != 2 {
		fmt.Fprintln(os.Stderr, "usage: extract_c09 <repo tree>")
		os.Exit(2)
	}
	root := os.Args[1]
	var dirs []string
	for _, d := range []string{"internal/language/bytecode", "internal/server/services"} {
		dirs = append(dirs, filepath.Join(root, d))
	}
	err := filepath.WalkDir(filepath.Join(root, "internal/runtime"), func(p string, d os.DirEntry, err error) error {
		if err != nil {
			return err
		}
		if d.IsDir() {
			dirs = append(dirs, p)
		}
		return nil
	})
	if err != nil {
		fmt.Fprintln(os.Stderr, err)
		os.Exit(2)
	}
	sites := []site{}
	nfiles := 0
	for _, dir := range dirs {
		ents, err := os.ReadDir(dir)
		if err != nil {
			fmt.Fprintln(os.Stderr, err)
			os.Exit(2)
		}
		var files []*ast.File
		var rels []string
		for _, e := range ents {
			if e.IsDir() || !strings.HasSuffix(e.Name(), ".go") || strings.HasSuffix(e.Name(), "_test.go") {
				continue
			}
			p := filepath.Join(dir, e.Name())
			f, err := parser.ParseFile(fset, p, nil, parser.SkipObjectResolution)
			if err != nil {
				fmt.Fprintln(os.Stderr, "parse:", err)
				os.Exit(2)
			}
			rel, _ := filepath.Rel(root, p)
			files = append(files, f)
			rels = append(rels, rel)
			nfiles++
		}
		funcs := map[string]*ast.FuncDecl{}
		for _, f := range files {
			for _, d := range f.Decls {
				if fd, ok := d.(*ast.FuncDecl); ok && fd.Recv == nil {
					funcs[fd.Name.Name] = fd
				}
			}
		}
		for i, f := range files {
			for _, d := range f.Decls {
				if fd, ok := d.(*ast.FuncDecl); ok && fd.Body != nil {
					walk(rels[i], fd, funcs, &sites)
				}
			}
			// go statements outside function declarations (package-level func literals)
			for _, d := range f.Decls {
				if gd, ok := d.(*ast.GenDecl); ok {
					ast.Inspect(gd, func(x ast.Node) bool {
						if g, ok := x.(*ast.GoStmt); ok {
							sites = append(sites, site{File: rels[i], Func: "<package-level>", Line: fset.Position(g.Pos()).Line, Callee: text(g.Call.Fun)})
						}
						return true
					})
				}
			}
		}
	}
	sort.Slice(sites, func(i, j int) bool {
		if sites[i].File != sites[j].File {
			return sites[i].File < sites[j].File
		}
		return sites[i].Line < sites[j].Line
	})
	out := map[string]any{"files": nfiles, "sites": sites}
	b, _ := json.MarshalIndent(out, "", " ")
	fmt.Println(string(b))
}
