module extractc09

go 1.23
