#!/usr/bin/env python3
"""Regenerate MANIFEST.json from checks/Cxx.py META blocks + not_applicable.json."""
import importlib, json, os, sys
here = os.path.dirname(os.path.dirname(os.path.abspath(__file__)))
sys.path.insert(0, here)
props = [json.loads(l)["id"] for l in open(os.path.join(here, "properties.jsonl")) if l.strip()]
na = json.load(open(os.path.join(here, "not_applicable.json")))
checks, napp = [], []
for pid in props:
    path = os.path.join(here, "checks", pid + ".py")
    if os.path.exists(path) and pid not in na.get("withdrawn", {}):
        m = dict(importlib.import_module("checks." + pid).META)
        if m["level"] not in ("exploration", "fault_enumeration", "model_checking", "proof", "translation_validation", "other"):
            m["text"] = "PARTIAL. " + m["text"]
            m["level"] = "proof"
        checks.append({
            "property_id": pid,
            "quick_cmd": "./check %s quick" % pid,
            "thorough_cmd": "./check %s thorough" % pid,
            "evidence_file": "/verif/evidence/%s.json" % pid,
            "replay_cmd_template": "./check %s --replay {path}" % pid,
            "engine": "lean4+correspondence",
            "level_claimed": {"category": m["level"], "text": m["text"], "design_ref": m.get("design_ref", "DESIGN.md §6 " + pid)},
            "level_note": m["note"],
            "technique": m["technique"],
        })
    else:
        reason = na.get("withdrawn", {}).get(pid) or na.get("reasons", {}).get(pid) or na["default"]
        napp.append({"property_id": pid, "reason": reason})
man = {
    "version": 1,
    "setup_cmd": "./setup.sh",
    "hooks": {
        "guard": "verif",
        "enable": "go test -tags verif (harness files are overlaid on a scratch copy of /repo; hooks in /repo are //go:build verif)",
        "baseline_off_cmd": "cd /repo && go test -mod=mod -vet=off -count=1 ./internal/util/javascript/ ./tools/langlint/",
        "source_commits": na.get("hook_commits", []),
        "add_only": True,
    },
    "engines": [{
        "name": "lean4+correspondence", "path": "/verif/lean, /verif/verifpy, /verif/harness",
        "serves_properties": [c["property_id"] for c in checks],
        "kind_free_text": "Lean 4 theorems over executable models (lake project lean/), tied to /repo's working tree by Go "
                          "correspondence harnesses run in a scratch copy (harness/overlay), translators (tools/) and a compiled "
                          "core-only Lean driver (egodriver); ./check orchestrates, audits axioms, writes evidence",
    }],
    "checks": checks,
    "not_applicable": napp,
    "notes": "See DESIGN.md. known_findings.json lists recorded defects and fix: commits.",
}
json.dump(man, open(os.path.join(here, "MANIFEST.json"), "w"), indent=1)
print("checks:", len(checks), "not_applicable:", len(napp))
