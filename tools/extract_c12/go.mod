module extract_c12

go 1.23
