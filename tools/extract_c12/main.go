// extract_c12: T1 translator for property C12.  Lists every field of bytecode.Context (and of the
// ByteCode receiver) that is WRITTEN inside the diagnostic hook code reachable from the dispatch loop:
//
//	bytecode:  traceInstruction, (*Context).traceLine, (*ByteCode).ensureProfileSlot,
//	           (*Context).FlushProfileTimer, and inside atLineByteCode the blocks
//	           `if profilingActive.Load() {…}` and `if c.Tracing() && … {…}`
//	debugger:  debuggerPrompt and the body of the `for err == nil` loop of runFrom
//
// following calls `c.Method(…)` / `fn(c, …)` transitively inside the two packages.  A write is an
// assignment / ++ / & whose target is rooted at `c.<field>`, a method call `c.<field>.M(…)` with M not in
// the read-only list, or `fmt.Fprint*(c.<field>, …)`.  Fails closed (exit 2) on anything it cannot resolve.
// usage: extract_c12 <repo root> <comma separated functions not to descend into>
package main

import (
	"encoding/json"
	"fmt"
	"go/ast"
	"go/parser"
	"go/printer"
	"go/token"
	"os"
	"path/filepath"
	"sort"
	"strings"
)

type write struct {
	Field string `json:"field"`
	How   string `json:"how"`
	In    string `json:"in"`
	Root  string `json:"root"`
}

var (
	fset    = token.NewFileSet()
	funcs   = map[string]*ast.FuncDecl{} // "bytecode.traceInstruction", "bytecode.Context.traceLine"
	writes  []write
	skipped = map[string]bool{}
	errs    []string
	skip    = map[string]bool{}
	seen    = map[string]bool{}
)

var readOnly = map[string]bool{"Load": true, "String": true, "Len": true, "Name": true, "Get": true, "GetLine": true,
	"Size": true, "RLock": true, "RUnlock": true, "Lock": true, "Unlock": true, "IsZero": true, "Peek": true,
	"GetSource": true, "Root": true, "Parent": true, "Format": true, "Sub": true}

func src(n ast.Node) string {
	var sb strings.Builder
	_ = printer.Fprint(&sb, fset, n)
	return sb.String()
}

func recvType(fd *ast.FuncDecl) string {
	if fd.Recv == nil || len(fd.Recv.List) == 0 {
		return ""
	}
	return strings.TrimPrefix(src(fd.Recv.List[0].Type), "*")
}

func load(root, pkg string) {
	dir := filepath.Join(root, "internal/language", pkg)
	ps, err := parser.ParseDir(fset, dir, func(fi os.FileInfo) bool { return !strings.HasSuffix(fi.Name(), "_test.go") }, 0)
	if err != nil {
		errs = append(errs, err.Error())
		return
	}
	for _, p := range ps {
		for _, f := range p.Files {
			for _, d := range f.Decls {
				if fd, ok := d.(*ast.FuncDecl); ok && fd.Body != nil {
					k := pkg + "." + fd.Name.Name
					if r := recvType(fd); r != "" {
						k = pkg + "." + r + "." + fd.Name.Name
					}
					funcs[k] = fd
				}
			}
		}
	}
}

// rootField returns the field name if e is rooted at <v>.<field> for a tracked variable v.
func rootField(e ast.Expr, vars map[string]string) (string, bool) {
	for {
		switch x := e.(type) {
		case *ast.ParenExpr:
			e = x.X
		case *ast.IndexExpr:
			e = x.X
		case *ast.StarExpr:
			e = x.X
		case *ast.SliceExpr:
			e = x.X
		case *ast.SelectorExpr:
			if id, ok := x.X.(*ast.Ident); ok {
				if pre, ok := vars[id.Name]; ok {
					return pre + x.Sel.Name, true
				}
				return "", false
			}
			e = x.X
		default:
			return "", false
		}
	}
}

// tracked parameters of a function: name → field prefix ("" for Context, "bc." for ByteCode)
func trackedVars(fd *ast.FuncDecl) map[string]string {
	vars := map[string]string{}
	add := func(fl *ast.FieldList) {
		if fl == nil {
			return
		}
		for _, f := range fl.List {
			t := strings.TrimPrefix(strings.TrimPrefix(src(f.Type), "*"), "bytecode.")
			for _, n := range f.Names {
				switch t {
				case "Context":
					vars[n.Name] = ""
				case "ByteCode":
					vars[n.Name] = "bc."
				}
			}
		}
	}
	add(fd.Recv)
	add(fd.Type.Params)
	return vars
}

func scan(node ast.Node, vars map[string]string, pkg, in, root string) {
	rec := func(field, how string) { writes = append(writes, write{field, how, in, root}) }
	ast.Inspect(node, func(n ast.Node) bool {
		switch x := n.(type) {
		case *ast.AssignStmt:
			for _, l := range x.Lhs {
				if f, ok := rootField(l, vars); ok {
					rec(f, "assign")
				}
			}
		case *ast.IncDecStmt:
			if f, ok := rootField(x.X, vars); ok {
				rec(f, "assign")
			}
		case *ast.UnaryExpr:
			if x.Op == token.AND {
				if f, ok := rootField(x.X, vars); ok {
					rec(f, "assign")
				}
			}
		case *ast.CallExpr:
			call(x, vars, pkg, in, root, rec)
		}
		return true
	})
}

func call(x *ast.CallExpr, vars map[string]string, pkg, in, root string, rec func(string, string)) {
	passes := -1 // index of an argument that is a tracked variable itself
	for i, a := range x.Args {
		if id, ok := a.(*ast.Ident); ok {
			if _, ok := vars[id.Name]; ok {
				passes = i
			}
		}
	}
	switch fn := x.Fun.(type) {
	case *ast.SelectorExpr:
		if id, ok := fn.X.(*ast.Ident); ok {
			if pre, ok := vars[id.Name]; ok { // c.Method(…)
				typ := map[string]string{"": "Context", "bc.": "ByteCode"}[pre]
				descend("bytecode."+typ+"."+fn.Sel.Name, in, root)
				return
			}
			if id.Name == "fmt" && strings.HasPrefix(fn.Sel.Name, "Fprint") && len(x.Args) > 0 {
				if f, ok := rootField(x.Args[0], vars); ok {
					rec(f, "call:Write")
				}
				return
			}
			if passes >= 0 { // otherpkg.Fn(c, …)
				if id.Name == "bytecode" {
					descend("bytecode."+fn.Sel.Name, in, root)
				} else {
					errs = append(errs, fmt.Sprintf("%s: context passed to %s.%s", in, id.Name, fn.Sel.Name))
				}
			}
			return
		}
		if f, ok := rootField(fn.X, vars); ok && !readOnly[fn.Sel.Name] { // c.field.M(…)
			if _, isBC := funcs["bytecode.ByteCode."+fn.Sel.Name]; isBC && f == "bc" {
				descend("bytecode.ByteCode."+fn.Sel.Name, in, root) // c.bc.method(…): follow it
				return
			}
			rec(f, "call:"+fn.Sel.Name)
		}
	case *ast.Ident:
		if passes >= 0 && !map[string]bool{"append": true, "len": true, "cap": true, "panic": true, "print": true, "println": true}[fn.Name] { // fn(c, …) in the same package
			descend(pkg+"."+fn.Name, in, root)
		}
	}
}

func descend(key, from, root string) {
	short := key[strings.LastIndex(key, ".")+1:]
	if skip[short] {
		skipped[short] = true
		return
	}
	fd, ok := funcs[key]
	if !ok {
		errs = append(errs, fmt.Sprintf("%s: cannot resolve %s", from, key))
		return
	}
	if seen[key+"@"+root] {
		return
	}
	seen[key+"@"+root] = true
	scan(fd.Body, trackedVars(fd), strings.SplitN(key, ".", 2)[0], short, root)
}

func main() {
	if len(os.Args) < 3 {
		fmt.Fprintln(os.Stderr, "usage: extract_c12 <repo> <skip,…>")
		os.Exit(2)
	}
	for _, s := range strings.Split(os.Args[2], ",") {
		skip[s] = true
	}
	load(os.Args[1], "bytecode")
	load(os.Args[1], "debugger")
	for _, r := range []string{"bytecode.traceInstruction", "bytecode.Context.traceLine", "bytecode.ByteCode.ensureProfileSlot",
		"bytecode.Context.FlushProfileTimer", "debugger.debuggerPrompt"} {
		descend(r, "root", r[strings.LastIndex(r, ".")+1:])
	}
	// hook blocks inside atLineByteCode
	found := 0
	if fd, ok := funcs["bytecode.atLineByteCode"]; ok {
		for _, st := range fd.Body.List {
			if is, ok := st.(*ast.IfStmt); ok {
				c := src(is.Cond)
				if strings.HasPrefix(c, "profilingActive.Load()") || strings.Contains(c, "c.Tracing()") || strings.Contains(c, "c.debugging") {
					found++
					scan(is.Body, trackedVars(fd), "bytecode", "atLineByteCode", "atLineByteCode:"+c)
				}
			}
		}
	}
	if found < 3 {
		errs = append(errs, fmt.Sprintf("atLineByteCode: expected the profiling, debugging and tracing blocks, found %d", found))
	}
	// the debugger's loop around c.Resume()
	loops := 0
	if fd, ok := funcs["debugger.runFrom"]; ok {
		for _, st := range fd.Body.List {
			if fs, ok := st.(*ast.ForStmt); ok {
				loops++
				scan(fs.Body, trackedVars(fd), "debugger", "runFrom", "runFrom")
			}
		}
	}
	if loops != 1 {
		errs = append(errs, "runFrom: loop not found")
	}
	sort.Slice(writes, func(i, j int) bool {
		return writes[i].Field+writes[i].How+writes[i].In < writes[j].Field+writes[j].How+writes[j].In
	})
	var sk []string
	for k := range skipped {
		sk = append(sk, k)
	}
	sort.Strings(sk)
	_ = json.NewEncoder(os.Stdout).Encode(map[string]any{"writes": writes, "skipped": sk, "errors": errs})
	if len(errs) > 0 {
		os.Exit(2)
	}
}
