module extractc03

go 1.23
