// extract_c02 reads internal/language/bytecode/optimizations.go (go/ast, no type checking) and prints the
// peephole rule table as Lean data for EgoVerif.C02 (`genRules : List (String × Rule)`).
// It fails closed: any syntax it does not understand is an error (exit 1), never a silently dropped rule.
package main

import (
	"fmt"
	"go/ast"
	"go/parser"
	"go/token"
	"os"
	"strconv"
	"strings"
	"unicode"
)

func die(fset *token.FileSet, n ast.Node, f string, a ...any) {
	pos := ""
	if n != nil {
		pos = fset.Position(n.Pos()).String() + ": "
	}

	fmt.Fprintf(os.Stderr, "extract_c02: %s%s\n", pos, fmt.Sprintf(f, a...))
	os.Exit(1)
}

func leanStr(s string) string {
	var b strings.Builder

	b.WriteByte('"')

	for _, r := range s {
		switch {
		case r == '"' || r == '\\':
			b.WriteByte('\\')
			b.WriteRune(r)
		case r == '\n':
			b.WriteString("\\n")
		case r < 32:
			fmt.Fprintf(&b, "\\x%02x", r)
		default:
			b.WriteRune(r)
		}
	}

	b.WriteByte('"')

	return b.String()
}

type ext struct{ fset *token.FileSet }

func (e ext) kv(lit *ast.CompositeLit) map[string]ast.Expr {
	out := map[string]ast.Expr{}

	for _, el := range lit.Elts {
		kv, ok := el.(*ast.KeyValueExpr)
		if !ok {
			die(e.fset, el, "positional composite element")
		}

		k, ok := kv.Key.(*ast.Ident)
		if !ok {
			die(e.fset, kv.Key, "non-identifier key")
		}

		if _, dup := out[k.Name]; dup {
			die(e.fset, kv.Key, "duplicate key %s", k.Name)
		}

		out[k.Name] = kv.Value
	}

	return out
}

func (e ext) str(x ast.Expr) string {
	b, ok := x.(*ast.BasicLit)
	if !ok || b.Kind != token.STRING {
		die(e.fset, x, "string literal expected")
	}

	s, err := strconv.Unquote(b.Value)
	if err != nil {
		die(e.fset, x, "bad string literal")
	}

	return s
}

func (e ext) boolean(x ast.Expr) bool {
	id, ok := x.(*ast.Ident)
	if !ok || (id.Name != "true" && id.Name != "false") {
		die(e.fset, x, "boolean literal expected")
	}

	return id.Name == "true"
}

func typeName(x ast.Expr) string {
	if id, ok := x.(*ast.Ident); ok {
		return id.Name
	}

	return ""
}

var phOps = map[string]string{"optNothing": ".nothing", "optStore": ".store", "optRead": ".read", "OptCount": ".count",
	"optRunConstantFragment": ".runFragment"}

func (e ext) placeholder(lit *ast.CompositeLit) string {
	f := e.kv(lit)
	parts := []string{}
	name := ""

	for k, v := range f {
		switch k {
		case "Name":
			name = e.str(v)
		case "MustBeString":
			if e.boolean(v) {
				parts = append(parts, "mustStr := true")
			}
		case "ExcludeStackMarker":
			if e.boolean(v) {
				parts = append(parts, "exclMarker := true")
			}
		case "Operation":
			op, ok := phOps[typeName(v)]
			if !ok {
				die(e.fset, v, "unknown placeholder operation")
			}

			parts = append(parts, "op := "+op)
		case "Register":
			b, ok := v.(*ast.BasicLit)
			if !ok || b.Kind != token.INT {
				die(e.fset, v, "integer register expected")
			}

			parts = append(parts, "reg := "+b.Value)
		default:
			die(e.fset, lit, "unknown placeholder field %s", k)
		}
	}

	// deterministic field order
	order := map[string]int{"mustStr": 1, "exclMarker": 2, "op": 3, "reg": 4}

	for i := range parts {
		for j := i + 1; j < len(parts); j++ {
			if order[strings.Fields(parts[j])[0]] < order[strings.Fields(parts[i])[0]] {
				parts[i], parts[j] = parts[j], parts[i]
			}
		}
	}

	return "{name := " + leanStr(name) + strings.Join(append([]string{""}, parts...), ", ") + "}"
}

// literal value → Lean `Val`, or "" when x is not a supported literal
func (e ext) value(x ast.Expr) string {
	switch v := x.(type) {
	case *ast.BasicLit:
		switch v.Kind {
		case token.STRING:
			return "(vStr " + leanStr(e.str(v)) + ")"
		case token.INT:
			return "(vInt " + v.Value + ")"
		}
	case *ast.Ident:
		if v.Name == "true" || v.Name == "false" {
			return "(.plain (.bool " + v.Name + "))"
		}
	case *ast.CallExpr:
		if typeName(v.Fun) == "NewStackMarker" && len(v.Args) == 1 {
			return "(.marker " + leanStr(e.str(v.Args[0])) + ")"
		}
	}

	return ""
}

func (e ext) spec(x ast.Expr) string {
	if x == nil {
		return ".absent"
	}

	if id, ok := x.(*ast.Ident); ok && id.Name == "nil" {
		return ".absent"
	}

	if lit, ok := x.(*ast.CompositeLit); ok {
		switch {
		case typeName(lit.Type) == "empty" && len(lit.Elts) == 0:
			return ".empty"
		case typeName(lit.Type) == "placeholder":
			return ".ph " + e.placeholder(lit)
		}

		if at, ok := lit.Type.(*ast.ArrayType); ok && at.Len == nil && typeName(at.Elt) == "any" {
			items := []string{}

			for _, el := range lit.Elts {
				if cl, ok := el.(*ast.CompositeLit); ok && typeName(cl.Type) == "placeholder" {
					items = append(items, ".ph "+e.placeholder(cl))
				} else if v := e.value(el); v != "" {
					items = append(items, ".lit "+v)
				} else {
					die(e.fset, el, "unsupported []any element")
				}
			}

			return ".arr [" + strings.Join(items, ", ") + "]"
		}

		die(e.fset, x, "unsupported composite operand")
	}

	if v := e.value(x); v != "" {
		return ".lit " + v
	}

	die(e.fset, x, "unsupported operand expression")

	return ""
}

func (e ext) instrs(x ast.Expr) string {
	if x == nil {
		return "[]"
	}

	lit, ok := x.(*ast.CompositeLit)
	if !ok {
		die(e.fset, x, "[]instruction literal expected")
	}

	if at, ok := lit.Type.(*ast.ArrayType); !ok || typeName(at.Elt) != "instruction" {
		die(e.fset, x, "[]instruction literal expected")
	}

	out := []string{}

	for _, el := range lit.Elts {
		il, ok := el.(*ast.CompositeLit)
		if !ok {
			die(e.fset, el, "instruction literal expected")
		}

		f := e.kv(il)
		op := typeName(f["Operation"])

		if op == "" {
			die(e.fset, el, "instruction without a plain opcode identifier")
		}

		for k := range f {
			if k != "Operation" && k != "Operand" {
				die(e.fset, el, "unknown instruction field %s", k)
			}
		}

		r := []rune(op)
		r[0] = unicode.ToLower(r[0])
		out = append(out, "⟨."+string(r)+", "+e.spec(f["Operand"])+"⟩")
	}

	return "[" + strings.Join(out, ", ") + "]"
}

func main() {
	if len(os.Args) != 2 {
		fmt.Fprintln(os.Stderr, "usage: extract_c02 <optimizations.go>")
		os.Exit(2)
	}

	fset := token.NewFileSet()

	file, err := parser.ParseFile(fset, os.Args[1], nil, 0)
	if err != nil {
		die(fset, nil, "%v", err)
	}

	e := ext{fset}

	var table *ast.CompositeLit

	for _, d := range file.Decls {
		gd, ok := d.(*ast.GenDecl)
		if !ok {
			continue
		}

		for _, s := range gd.Specs {
			vs, ok := s.(*ast.ValueSpec)
			if !ok {
				continue
			}

			for i, n := range vs.Names {
				if n.Name == "optimizations" && i < len(vs.Values) {
					table, _ = vs.Values[i].(*ast.CompositeLit)
				}
			}
		}
	}

	if table == nil {
		die(fset, nil, "var optimizations = []optimization{…} not found")
	}

	rules := []string{}

	for _, el := range table.Elts {
		lit, ok := el.(*ast.CompositeLit)
		if !ok {
			die(fset, el, "rule literal expected")
		}

		f := e.kv(lit)
		for k := range f {
			switch k {
			case "Description", "Pattern", "Replacement", "Debug", "Disable":
			default:
				die(fset, el, "unknown rule field %s", k)
			}
		}

		if d, ok := f["Disable"]; ok && e.boolean(d) {
			continue // optimize() skips disabled rules
		}

		if f["Pattern"] == nil || f["Description"] == nil {
			die(fset, el, "rule without Pattern or Description")
		}

		rules = append(rules, fmt.Sprintf("  (%s, ⟨%s,\n     %s⟩)", leanStr(e.str(f["Description"])), e.instrs(f["Pattern"]), e.instrs(f["Replacement"])))
	}

	fmt.Printf("def genRules : List (String × Rule) := [\n%s]\n", strings.Join(rules, ",\n"))
}
