// Command extract_c36 is the C36 translator: it reads tools/langlint/lint.go with go/ast and
// prints the ordered file-system operations on the success path of rewriteFile as JSON and as a
// Lean list.  It fails closed (exit 1) on any statement or call it does not understand.
//
// Success path: statements are taken in order; `if … err != nil { … }` bodies are error handling
// and are skipped, `if … err == nil { … }` bodies are on the success path.
//
// File names are abstracted to three symbols: target (the function's first parameter), tmp (the
// name of the file the function creates) and bak (a name built from a literal containing "bak").
package main

import (
	"encoding/json"
	"fmt"
	"go/ast"
	"go/parser"
	"go/token"
	"os"
	"strings"
)

type op struct {
	Op string `json:"op"`
	A  string `json:"a"`
	B  string `json:"b,omitempty"`
}

type extractor struct {
	fset  *token.FileSet
	names map[string]string // identifier -> target | tmp | bak | dir
	files map[string]bool   // identifiers holding the *os.File of the temporary file
	pure  map[string]bool   // identifiers whose methods are pure (os.FileInfo)
	ops   []op
}

func (x *extractor) fail(n ast.Node, format string, args ...any) {
	fmt.Fprintf(os.Stderr, "extract_c36: %s: %s\n", x.fset.Position(n.Pos()), fmt.Sprintf(format, args...))
	os.Exit(1)
}

func hasLiteral(e ast.Expr, sub string) bool {
	found := false

	ast.Inspect(e, func(n ast.Node) bool {
		if l, ok := n.(*ast.BasicLit); ok && l.Kind == token.STRING && strings.Contains(l.Value, sub) {
			found = true
		}

		return true
	})

	return found
}

func mentions(e ast.Expr, ident string) bool {
	found := false

	ast.Inspect(e, func(n ast.Node) bool {
		if id, ok := n.(*ast.Ident); ok && id.Name == ident {
			found = true
		}

		return true
	})

	return found
}

// name resolves an argument expression to a file-name symbol.
func (x *extractor) name(e ast.Expr) string {
	id, ok := e.(*ast.Ident)
	if !ok {
		x.fail(e, "file name argument is not an identifier")
	}

	n, ok := x.names[id.Name]
	if !ok || n == "dir" {
		x.fail(e, "unknown file name %q", id.Name)
	}

	return n
}

func selector(c *ast.CallExpr) (recv, method string, ok bool) {
	s, ok := c.Fun.(*ast.SelectorExpr)
	if !ok {
		return "", "", false
	}

	id, ok := s.X.(*ast.Ident)
	if !ok {
		return "", "", false
	}

	return id.Name, s.Sel.Name, true
}

// call records the operations of one call expression (arguments first).
func (x *extractor) call(c *ast.CallExpr) {
	for _, a := range c.Args {
		x.expr(a)
	}

	recv, method, ok := selector(c)
	if !ok {
		// conversions such as []byte(x) or os.FileMode(x)
		if id, isIdent := c.Fun.(*ast.Ident); isIdent && (id.Name == "string" || id.Name == "len") {
			return
		}

		if _, isArr := c.Fun.(*ast.ArrayType); isArr {
			return
		}

		x.fail(c, "call of an unknown function")
	}

	switch {
	case recv == "filepath" && (method == "Dir" || method == "Base" || method == "Join"):
		return
	case x.pure[recv]:
		return
	case x.files[recv]:
		switch method {
		case "Write", "WriteString":
			x.ops = append(x.ops, op{Op: "write", A: "tmp"})
		case "Close":
			x.ops = append(x.ops, op{Op: "close", A: "tmp"})
		case "Sync":
			x.ops = append(x.ops, op{Op: "sync", A: "tmp"})
		case "Name":
		default:
			x.fail(c, "unknown file method %s", method)
		}

		return
	case recv == "os":
		switch method {
		case "CreateTemp":
			x.ops = append(x.ops, op{Op: "createExcl", A: "tmp"})
		case "Create":
			x.ops = append(x.ops, op{Op: "createTrunc", A: x.name(c.Args[0])})
		case "OpenFile":
			flags := c.Args[1]

			switch {
			case !mentions(flags, "O_CREATE"):
				x.fail(c, "os.OpenFile without O_CREATE")
			case mentions(flags, "O_EXCL"):
				x.ops = append(x.ops, op{Op: "createExcl", A: x.name(c.Args[0])})
			case mentions(flags, "O_TRUNC"):
				x.ops = append(x.ops, op{Op: "createTrunc", A: x.name(c.Args[0])})
			default:
				x.fail(c, "os.OpenFile with neither O_EXCL nor O_TRUNC")
			}
		case "WriteFile":
			n := x.name(c.Args[0])
			x.ops = append(x.ops, op{Op: "createTrunc", A: n}, op{Op: "write", A: n}, op{Op: "close", A: n})
		case "Stat", "Lstat":
			x.ops = append(x.ops, op{Op: "stat", A: x.name(c.Args[0])})
		case "Chmod":
			x.ops = append(x.ops, op{Op: "chmod", A: x.name(c.Args[0])})
		case "Rename":
			x.ops = append(x.ops, op{Op: "rename", A: x.name(c.Args[0]), B: x.name(c.Args[1])})
		case "Remove":
			x.ops = append(x.ops, op{Op: "remove", A: x.name(c.Args[0])})
		default:
			x.fail(c, "unknown os function %s", method)
		}

		return
	}

	x.fail(c, "call %s.%s is not understood", recv, method)
}

// expr records the calls inside an expression, in evaluation order.
func (x *extractor) expr(e ast.Expr) {
	switch v := e.(type) {
	case nil, *ast.Ident, *ast.BasicLit:
	case *ast.CallExpr:
		x.call(v)
	case *ast.BinaryExpr:
		x.expr(v.X)
		x.expr(v.Y)
	case *ast.SelectorExpr:
		x.expr(v.X)
	case *ast.ParenExpr:
		x.expr(v.X)
	case *ast.UnaryExpr:
		x.expr(v.X)
	default:
		x.fail(e, "expression %T is not understood", e)
	}
}

func (x *extractor) assign(s *ast.AssignStmt) {
	for _, r := range s.Rhs {
		x.expr(r)
	}

	if len(s.Rhs) != 1 || len(s.Lhs) == 0 {
		return
	}

	lhs, ok := s.Lhs[0].(*ast.Ident)
	if !ok || lhs.Name == "_" {
		return
	}

	rhs := s.Rhs[0]

	if c, ok := rhs.(*ast.CallExpr); ok {
		if recv, method, ok := selector(c); ok {
			switch {
			case recv == "os" && (method == "CreateTemp" || method == "OpenFile" || method == "Create"):
				x.files[lhs.Name] = true

				return
			case recv == "os" && (method == "Stat" || method == "Lstat"):
				x.pure[lhs.Name] = true

				return
			case x.files[recv] && method == "Name":
				x.names[lhs.Name] = "tmp"

				return
			case recv == "filepath" && method == "Dir":
				x.names[lhs.Name] = "dir"

				return
			}
		}
	}

	// a name built from string pieces
	switch {
	case hasLiteral(rhs, "bak"):
		x.names[lhs.Name] = "bak"
	case hasLiteral(rhs, "langlint"):
		x.names[lhs.Name] = "tmp"
	}
}

func isErrCheck(cond ast.Expr, tok token.Token) bool {
	b, ok := cond.(*ast.BinaryExpr)
	if !ok || b.Op != tok {
		return false
	}

	l, lok := b.X.(*ast.Ident)
	r, rok := b.Y.(*ast.Ident)

	return lok && rok && l.Name == "err" && r.Name == "nil"
}

func (x *extractor) stmt(s ast.Stmt) {
	switch v := s.(type) {
	case *ast.AssignStmt:
		x.assign(v)
	case *ast.ExprStmt:
		x.expr(v.X)
	case *ast.ReturnStmt:
		for _, r := range v.Results {
			x.expr(r)
		}
	case *ast.IfStmt:
		if v.Init != nil {
			x.stmt(v.Init)
		}

		switch {
		case isErrCheck(v.Cond, token.NEQ) && v.Else == nil:
			// error handling: not on the success path
		case isErrCheck(v.Cond, token.EQL) && v.Else == nil:
			for _, b := range v.Body.List {
				x.stmt(b)
			}
		default:
			x.fail(v, "if statement is not an `err != nil` / `err == nil` check")
		}
	case *ast.BlockStmt:
		for _, b := range v.List {
			x.stmt(b)
		}
	case *ast.DeclStmt, *ast.EmptyStmt:
	default:
		x.fail(s, "statement %T is not understood", s)
	}
}

func main() {
	if len(os.Args) != 2 {
		fmt.Fprintln(os.Stderr, "usage: extract_c36 <path to lint.go>")
		os.Exit(2)
	}

	fset := token.NewFileSet()

	f, err := parser.ParseFile(fset, os.Args[1], nil, 0)
	if err != nil {
		fmt.Fprintln(os.Stderr, "extract_c36:", err)
		os.Exit(1)
	}

	x := &extractor{fset: fset, names: map[string]string{}, files: map[string]bool{}, pure: map[string]bool{}}

	var fn *ast.FuncDecl

	for _, d := range f.Decls {
		if fd, ok := d.(*ast.FuncDecl); ok && fd.Recv == nil && fd.Name.Name == "rewriteFile" {
			fn = fd
		}
	}

	if fn == nil || fn.Body == nil || len(fn.Type.Params.List) == 0 || len(fn.Type.Params.List[0].Names) == 0 {
		fmt.Fprintln(os.Stderr, "extract_c36: func rewriteFile(path, …) not found")
		os.Exit(1)
	}

	x.names[fn.Type.Params.List[0].Names[0].Name] = "target"

	for _, s := range fn.Body.List {
		x.stmt(s)
	}

	parts := make([]string, 0, len(x.ops))

	for _, o := range x.ops {
		if o.B != "" {
			parts = append(parts, fmt.Sprintf(".%s .%s .%s", o.Op, o.A, o.B))
		} else {
			parts = append(parts, fmt.Sprintf(".%s .%s", o.Op, o.A))
		}
	}

	out := map[string]any{"ops": x.ops, "lean": "[" + strings.Join(parts, ", ") + "]"}
	b, _ := json.Marshal(out)
	fmt.Println(string(b))
}
