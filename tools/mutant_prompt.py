#!/usr/bin/env python3
"""Prompt for a fresh sub-agent that seeds a property-breaking change (gets ONLY the property text)."""
import json, sys
pid, n = sys.argv[1], sys.argv[2]
hint = sys.argv[3] if len(sys.argv) > 3 else ""
prop = [json.loads(l) for l in open("/verif/properties.jsonl") if json.loads(l)["id"] == pid][0]
wt = f"/tmp/seed-{pid}-{n}"
print(f"""You are testing how robust a software project is against subtle regressions. The project is tucats/ego (a Go-syntax
scripting language with a REST server), checked out as a git worktree at {wt} (your working directory for this task; work ONLY there).

Here is a semantic property the project is supposed to satisfy:

  id: {prop['id']}
  title: {prop['title']}
  statement: {prop['statement']}
  quantified over: {prop['quantifier']['text']}
  code it is anchored in: {', '.join(prop['anchors']['files'])}

YOUR TASK: make ONE realistic change to the project's Go source (the kind of mistake or "simplification" a maintainer could plausibly
commit) that BREAKS this property, while the project still compiles and its existing pinned test suite still passes. The change must
need something specific to manifest — a particular interleaving, a crash or fault at a particular point, a multi-step sequence of
operations, an unusual input or boundary value, or two cooperating edits that each look fine alone — NOT something ordinary use would
expose at once. Keep it small (a few lines to a few dozen). Do not touch test files, docs, or anything outside the Go sources of the
module. Do not add comments that reveal the change is deliberate. {hint}

Build notes (no network exists): each shell call `export GOFLAGS=-mod=mod GOPROXY=off`; leave GOTOOLCHAIN alone. The tree does not
build until you run `go generate ./...` once in {wt} (creates two git-ignored files). The pinned suite is:
  cd {wt} && go test -vet=off -count=1 ./internal/util/javascript/ ./tools/langlint/
(also run the Go tests of the package(s) you edit, e.g. `go test -vet=off -count=1 ./internal/<pkg>/`; they should still pass — if a
package test fails only because it pins the exact behaviour you changed, prefer a different change).

DELIVER, in {wt}/SEED/ (create it):
  * patch.diff   — `git diff` of your change against the worktree's HEAD (source files only; not the generated files, not SEED/)
  * demo_test.go or demo.sh (+ any input files) — a demonstration that FAILS with your change applied and PASSES without it
    (a Go test file to be dropped into a named package, or a script that builds and runs something); say exactly how to run it
  * meta.json    — {{"property": "{pid}", "summary": "<what the change does>", "needs": "<what it needs in order to manifest>",
                    "files": [...], "demo": "<how to run the demonstration, from the repo root>", "why_tests_pass": "<one line>"}}
Verify yourself: (1) `go build ./...` succeeds with the change; (2) the pinned suite passes; (3) the demo fails with the change and
passes on the unchanged tree (save `git diff > SEED/patch.diff`, then `git apply -R SEED/patch.diff` … test … `git apply SEED/patch.diff`; NEVER use `git stash`: the stash is shared with other people's worktrees of this repository). Finish with a short report of what you changed and
the verification output. Do not look for or read anything under /verif or /verif-wt (it is unrelated to your task).""")
