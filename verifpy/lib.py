"""Shared machinery for every ./check <Cxx> <tier> run.

A check module (checks/Cxx.py) defines `run(ctx)`; it uses the Ctx methods below to
  * copy /repo's current working tree to a scratch directory outside /repo and /verif,
    add the harness overlay and produce the `go generate` artefacts,
  * (re)build the Lean project and audit the property's theorems (`#print axioms`),
  * compile run-time generated Lean obligations (translator output),
  * run the Go correspondence harness and the Lean driver and diff them,
  * classify failures against known_findings.json, write evidence, print the verdict.
"""
import fcntl
import hashlib
import json
import os
import re
import shutil
import subprocess
import sys
import time

VERIF = os.path.dirname(os.path.dirname(os.path.abspath(__file__)))
REPO = os.environ.get("VERIF_REPO", "/repo")
LEAN = os.path.join(VERIF, "lean")
CACHE = os.path.join(VERIF, ".cache")
ALLOWED_AXIOMS = {"propext", "Classical.choice", "Quot.sound"}
FORBIDDEN = re.compile(
    r"\bsorry\b|\badmit\b|^\s*axiom\s|native_decide|bv_decide|implemented_by|\bunsafe\s|maxHeartbeats\s+0\b",
    re.M,
)

GOENV = {
    "GOFLAGS": "-mod=mod",
    "GOPROXY": "off",
    "GOTOOLCHAIN": "auto",
    "CGO_ENABLED": os.environ.get("CGO_ENABLED", "0"),
}


def sh(cmd, cwd=None, env=None, timeout=None, input=None):
    e = dict(os.environ)
    if env:
        e.update(env)
    p = subprocess.run(cmd, cwd=cwd, env=e, timeout=timeout, input=input,
                       stdout=subprocess.PIPE, stderr=subprocess.STDOUT, text=True)
    return p.returncode, p.stdout


def strip_lean_comments(text):
    # remove /- ... -/ (nested) and -- line comments; good enough for the forbidden-token grep
    out, i, depth = [], 0, 0
    n = len(text)
    while i < n:
        if text.startswith("/-", i):
            depth += 1
            i += 2
        elif depth and text.startswith("-/", i):
            depth -= 1
            i += 2
        elif depth:
            i += 1
        elif text.startswith("--", i):
            while i < n and text[i] != "\n":
                i += 1
        else:
            out.append(text[i])
            i += 1
    return "".join(out)


class Broken(Exception):
    pass


class Ctx:
    def __init__(self, prop, tier, seed, replay=None):
        self.prop = prop
        self.tier = tier
        self.seed = seed
        self.replay_in = replay
        self.t0 = time.time()
        base = os.environ.get("VERIF_SCRATCH", "/var/tmp")
        self.scratch = os.path.join(base, "verif.%s.%d" % (prop, os.getpid()))
        self.tree = os.path.join(self.scratch, "tree")
        self.out = os.path.join(self.scratch, "out")
        self.obligations = []      # (name, discharged:bool, detail)
        self.broken = []           # names of proof obligations / correspondences that no longer check
        self.failures = []         # dicts: {class, input, what, ...} oracle failures on the implementation
        self.disagreements = []    # model vs implementation differences
        self.coverage = {}
        self.assumptions = []
        self.trusted = ["Lean 4.33.0 kernel", "axioms allowed: propext, Classical.choice, Quot.sound"]
        self.notes = []
        self.quick = tier == "quick"
        os.makedirs(self.out, exist_ok=True)

    # ---------------------------------------------------------------- utilities
    def log(self, *a):
        print("[%s %6.1fs]" % (self.prop, time.time() - self.t0), *a, flush=True)

    def n(self, quick, thorough):
        """case count for the tier (VERIF_CASES overrides)"""
        v = os.environ.get("VERIF_CASES")
        if v:
            return int(v)
        return quick if self.quick else thorough

    def cleanup(self):
        if os.environ.get("VERIF_KEEP"):
            self.log("keeping scratch", self.scratch)
            return
        # go's module cache files are read-only; scratch has none, but be defensive
        subprocess.run(["chmod", "-R", "u+w", self.scratch], stderr=subprocess.DEVNULL)
        shutil.rmtree(self.scratch, ignore_errors=True)

    # ---------------------------------------------------------------- scratch tree
    def prepare_tree(self, generate=True):
        """rsync /repo (working tree, not HEAD) into scratch, add overlay, run go generate."""
        os.makedirs(self.tree, exist_ok=True)
        # the two `go generate` artefacts are never taken from the source tree (they are git-ignored and may be
        # stale there): they are always produced here from the tree's own inputs by the tree's own generators
        rc, out = sh(["rsync", "-a", "--delete", "--exclude", ".git", "--exclude", "/internal/cli/app/lib.zip",
                      "--exclude", "/internal/i18n/messages.go", "--exclude", "/SEED", REPO + "/", self.tree + "/"])
        if rc != 0:
            raise RuntimeError("rsync failed: " + out)
        # overlay: shared helper packages plus only this property's harness files
        # (zz_verif_<cxx>*), so a harness of another property can never break this build
        ov = os.path.join(VERIF, "harness", "overlay")
        tag = "zz_verif_" + self.prop.lower()
        also = tuple("zz_verif_" + p.lower() for p in getattr(self, "overlay_also", ()))
        for dp, dn, fn in os.walk(ov):
            for f in fn:
                if f.startswith("zz_verif_") and not (f.startswith(tag) or f.startswith(also or ("\0",))
                                                      or f.startswith("zz_verif_shared")):
                    continue
                src = os.path.join(dp, f)
                dst = os.path.join(self.tree, os.path.relpath(src, ov))
                os.makedirs(os.path.dirname(dst), exist_ok=True)
                shutil.copy(src, dst)
        if generate:
            self._generate()
        return self.tree

    def _gen_key(self):
        h = hashlib.sha256()
        for d in ("lib", "internal/i18n/languages", "tools/lang", "tools/zipgo"):
            root = os.path.join(self.tree, d)
            for dp, dn, fn in sorted(os.walk(root)):
                dn.sort()
                for f in sorted(fn):
                    p = os.path.join(dp, f)
                    h.update(os.path.relpath(p, self.tree).encode())
                    try:
                        with open(p, "rb") as fh:
                            h.update(hashlib.sha256(fh.read()).digest())
                    except OSError:
                        pass
        for f in ("internal/cli/app/library.go", "internal/i18n/strings.go"):
            with open(os.path.join(self.tree, f), "rb") as fh:
                h.update(fh.read())
        return h.hexdigest()[:24]

    def _generate(self):
        arts = ["internal/cli/app/lib.zip", "internal/i18n/messages.go"]
        key = self._gen_key()
        cdir = os.path.join(CACHE, "gen", key)
        if all(os.path.exists(os.path.join(cdir, os.path.basename(a))) for a in arts):
            for a in arts:
                shutil.copy(os.path.join(cdir, os.path.basename(a)), os.path.join(self.tree, a))
            return
        rc, out = sh(["go", "generate", "./..."], cwd=self.tree, env=GOENV, timeout=600)
        if rc != 0:
            raise RuntimeError("go generate failed:\n" + out)
        os.makedirs(cdir, exist_ok=True)
        for a in arts:
            tmp = os.path.join(cdir, os.path.basename(a) + ".%d" % os.getpid())
            shutil.copy(os.path.join(self.tree, a), tmp)
            os.replace(tmp, os.path.join(cdir, os.path.basename(a)))

    # ---------------------------------------------------------------- go
    def go(self, args, env=None, timeout=3600, cwd=None):
        e = dict(GOENV)
        if env:
            e.update(env)
        return sh(["go"] + args, cwd=cwd or self.tree, env=e, timeout=timeout)

    def go_test(self, pkg, run, env=None, timeout=3600, race=False, tags="verif", extra=None):
        """Run one harness test (an overlay zz_verif_*_test.go) of package `pkg`.
        The harness gets VERIF_OUT (directory for its result files), VERIF_SEED, VERIF_TIER."""
        e = {"VERIF_OUT": self.out, "VERIF_SEED": str(self.seed), "VERIF_TIER": self.tier,
             "VERIF_REPLAY": self.replay_in or ""}
        if env:
            e.update({k: str(v) for k, v in env.items()})
        args = ["test", "-trimpath", "-tags", tags, "-vet=off", "-count=1", "-timeout", "%ds" % timeout,
                "-run", "^%s$" % run]
        if race:
            args.append("-race")
            e["CGO_ENABLED"] = "1"
        if extra:
            args += extra
        args.append(pkg)
        rc, out = self.go(args, env=e, timeout=timeout + 60)
        return rc, out

    # ---------------------------------------------------------------- lean
    def lake_build(self, targets):
        """Build (no-op when up to date) the static Lean targets under a lock."""
        os.makedirs(os.path.join(LEAN, ".lake"), exist_ok=True)
        with open(os.path.join(LEAN, ".lake", "verif.lock"), "w") as lk:
            fcntl.flock(lk, fcntl.LOCK_EX)
            rc, out = sh(["lake", "build"] + targets, cwd=LEAN, timeout=3600)
            if rc != 0:
                # a build started by hand outside this lock can collide with ours; a proof that is
                # really broken fails again
                time.sleep(5)
                rc, out = sh(["lake", "build"] + targets, cwd=LEAN, timeout=3600)
        return rc, out

    def lean_run(self, text, name="Tmp", timeout=1800):
        """Compile a Lean file written into scratch against the built project."""
        p = os.path.join(self.scratch, name + ".lean")
        with open(p, "w") as f:
            f.write(text)
        return sh(["lake", "env", "lean", p], cwd=LEAN, timeout=timeout)

    def lean_sources(self, subdir=None):
        root = os.path.join(LEAN, "EgoVerif", subdir or self.prop)
        res = []
        for dp, dn, fn in os.walk(root):
            for f in fn:
                if f.endswith(".lean"):
                    res.append(os.path.join(dp, f))
        return sorted(res)

    def lean_audit(self, modules=None, required=(), extra_dirs=()):
        """Build the property's modules, list every theorem they declare with the axioms it
        depends on, and record each as an obligation.  `required` theorem names must exist."""
        modules = modules or ["EgoVerif.%s.Props" % self.prop]
        rc, out = self.lake_build(modules + ["egodriver"])
        if rc != 0:
            self.log(out[-4000:])
            for m in modules:
                self.obligations.append((m, False, "lake build failed"))
            self.broken.append("lake build " + " ".join(modules))
            return False
        # forbidden tokens
        for d in [self.prop] + list(extra_dirs):
            for src in self.lean_sources(d):
                with open(src) as f:
                    body = strip_lean_comments(f.read())
                m = FORBIDDEN.search(body)
                if m:
                    self.obligations.append((src, False, "forbidden token %r" % m.group(0)))
                    self.broken.append("forbidden token %r in %s" % (m.group(0), os.path.relpath(src, VERIF)))
        text = "import EgoVerif.Common.Audit\n" + "".join("import %s\n" % m for m in modules)
        text += "".join("#audit_module %s\n" % m for m in modules)
        rc, out = self.lean_run(text, "Audit")
        seen = {}
        for line in out.splitlines():
            m = re.match(r".*AUDIT (\S+) \[(.*)\]\s*$", line)
            if m:
                name = m.group(1)
                axs = [a.strip() for a in m.group(2).split(",") if a.strip()]
                seen[name] = axs
        if rc != 0:
            self.log(out[-3000:])
            self.broken.append("axiom audit failed to run")
        ok = True
        self.lemmas = getattr(self, "lemmas", 0)
        for name, axs in sorted(seen.items()):
            bad = [a for a in axs if a not in ALLOWED_AXIOMS]
            # property theorems are named Cxx_*; everything else in the module is a helper lemma:
            # audited for axioms all the same, but not counted as an obligation of the property
            if name.split(".")[-1].startswith(self.prop + "_") or bad:
                self.obligations.append((name, not bad, "axioms=" + ",".join(axs)))
            else:
                self.lemmas += 1
            if bad:
                ok = False
                self.broken.append("theorem %s depends on %s" % (name, bad))
        for r in required:
            if not any(k == r or k.endswith("." + r) for k in seen):
                ok = False
                self.obligations.append((r, False, "required theorem missing"))
                self.broken.append("required theorem %s missing" % r)
        self.axioms = seen
        return ok

    def lean_obligation(self, name, text, timeout=1800):
        """A generated (translator output) Lean file: must compile with no error."""
        rc, out = self.lean_run(text, name, timeout=timeout)
        ok = rc == 0 and "error" not in out and "sorry" not in out
        self.obligations.append(("generated:" + name, ok, "lake env lean %s.lean" % name))
        if not ok:
            self.log("generated obligation %s failed:\n%s" % (name, out[-3000:]))
            self.broken.append("generated obligation %s" % name)
        return ok, out

    def leanchecker(self, modules=None):
        modules = modules or ["EgoVerif.%s.Props" % self.prop]
        rc, out = sh(["lake", "env", "leanchecker"] + modules, cwd=LEAN, timeout=3600)
        ok = rc == 0
        self.obligations.append(("leanchecker " + " ".join(modules), ok, out.strip()[-200:]))
        if not ok:
            self.broken.append("leanchecker " + " ".join(modules))
        return ok

    def driver(self, lines, drv=None, timeout=3600):
        """Pipe protocol lines through the compiled Lean model driver; returns output lines."""
        exe = os.path.join(LEAN, ".lake", "build", "bin", "egodriver")
        data = "".join(l + "\n" for l in lines)
        p = subprocess.run([exe, drv or self.prop], input=data, stdout=subprocess.PIPE,
                           stderr=subprocess.PIPE, text=True, timeout=timeout)
        if p.returncode != 0:
            raise RuntimeError("egodriver failed: " + p.stderr[-2000:])
        outs = p.stdout.split("\n")
        if outs and outs[-1] == "":
            outs.pop()
        if len(outs) != len(lines):
            raise RuntimeError("egodriver: %d lines in, %d out" % (len(lines), len(outs)))
        return outs

    # ---------------------------------------------------------------- results
    def read_jsonl(self, name):
        p = os.path.join(self.out, name)
        res = []
        if not os.path.exists(p):
            return res
        with open(p) as f:
            for line in f:
                line = line.strip()
                if line:
                    res.append(json.loads(line))
        return res

    def correspond(self, cases, drv=None, key_in="in", key_impl="impl", label="correspondence"):
        """cases: list of dicts with protocol line `in` and implementation answer `impl`.
        Runs the model on the same lines and records disagreements."""
        if not cases:
            return 0
        outs = self.driver([c[key_in] for c in cases], drv=drv)
        bad = 0
        for c, m in zip(cases, outs):
            if c[key_impl] != m:
                bad += 1
                if len(self.disagreements) < 50:
                    self.disagreements.append({"corr": label, "in": c[key_in], "impl": c[key_impl], "model": m,
                                               "desc": c.get("desc", "")})
        if bad:
            self.broken.append("%s: %d/%d lines differ between model and implementation" % (label, bad, len(cases)))
        return bad

    def fail(self, cls, what, **kw):
        d = {"class": cls, "what": what}
        d.update(kw)
        self.failures.append(d)

    def known_findings(self):
        p = os.path.join(VERIF, "known_findings.json")
        with open(p) as f:
            data = json.load(f)
        items = list(data.get("findings", []))
        d = os.path.join(VERIF, "known_findings.d")
        if os.path.isdir(d):
            for fn in sorted(os.listdir(d)):
                if fn.endswith(".json"):
                    with open(os.path.join(d, fn)) as f:
                        items += json.load(f)
        return [k for k in items if k["property"] == self.prop]

    def finish(self, level="proof", checker_cmd=None, extra=None):
        if level not in ("exploration", "fault_enumeration", "model_checking", "proof", "translation_validation", "other"):
            self.coverage.setdefault("level_note", "declared level %r; recorded as proof (partial)" % level)
            level = "proof"
        known = {k["class"]: k for k in self.known_findings()}
        unknown = [f for f in self.failures if f["class"] not in known]
        hit = {}
        for f in self.failures:
            if f["class"] in known:
                hit.setdefault(f["class"], f)
        for cls in sorted(hit):
            print("KNOWN-FINDING: property=%s %s [%s]" % (self.prop, known[cls]["what"], cls), flush=True)
        # a listed finding this run did not meet (an intermittent race, a class only the thorough tier reaches) is
        # still listed: say so, so that the output names every finding the file holds
        for cls in sorted(set(known) - set(hit)):
            print("KNOWN-FINDING: property=%s %s [%s] (listed; not observed in this run)" % (self.prop, known[cls]["what"], cls), flush=True)
        violation = None
        if unknown:
            violation = {"kind": "failing-input", "property": self.prop, "seed": self.seed, "tier": self.tier,
                         "failures": unknown[:20], "broken": self.broken, "disagreements": self.disagreements[:10]}
        elif self.broken:
            violation = {"kind": "no-failing-input-found", "property": self.prop, "seed": self.seed,
                         "tier": self.tier, "broken": self.broken, "disagreements": self.disagreements[:20],
                         "obligations_failed": [o for o in self.obligations if not o[1]]}
        nob = len(self.obligations)
        ndis = sum(1 for o in self.obligations if o[1])
        cov = {
            "obligations": nob,
            "discharged": ndis,
            "checker_cmd": checker_cmd or ("cd /verif/lean && lake build EgoVerif.%s.Props && lake env lean <audit of #print axioms>" % self.prop),
            "trusted_base": self.trusted,
            "theorems": [{"name": o[0], "ok": o[1], "detail": o[2]} for o in self.obligations][:200],
            "known_findings_hit": sorted(hit),
            "helper_lemmas_audited": getattr(self, "lemmas", 0),
            "model_vs_impl_disagreements": len(self.disagreements),
        }
        cov.update(self.coverage)
        if extra:
            cov.update(extra)
        ev = {
            "property_id": self.prop,
            "tier": self.tier,
            "seed": self.seed,
            "level": level,
            "coverage": cov,
            "assumptions": self.assumptions,
            "wall_s": round(time.time() - self.t0, 2),
            "violations": 0 if violation is None else max(1, len(unknown)),
        }
        evdir = os.environ.get("VERIF_EVIDENCE_DIR") or os.path.join(VERIF, "evidence")
        os.makedirs(evdir, exist_ok=True)
        tmp = os.path.join(evdir, ".%s.%d" % (self.prop, os.getpid()))
        with open(tmp, "w") as f:
            json.dump(ev, f, indent=1, sort_keys=True, default=str)
            f.write("\n")
        os.replace(tmp, os.path.join(evdir, self.prop + ".json"))
        if violation is None:
            self.log("OK obligations=%d/%d %s" % (ndis, nob, {k: v for k, v in cov.items() if isinstance(v, int)}))
            return 0
        rpdir = os.environ.get("VERIF_REPLAY_DIR") or os.path.join(VERIF, "replay")
        os.makedirs(rpdir, exist_ok=True)
        rp = os.path.join(rpdir, "%s-%s-%d.json" % (self.prop, self.tier, self.seed))
        with open(rp, "w") as f:
            json.dump(violation, f, indent=1, default=str)
        tail = "" if violation["kind"] == "failing-input" else " no-failing-input-found"
        print("VIOLATION property=%s replay=%s%s" % (self.prop, rp, tail), flush=True)
        return 1


def main(argv):
    import importlib
    if len(argv) < 2:
        print("usage: check <Cxx> [quick|thorough] [--replay file]")
        return 2
    prop = argv[1]
    tier = os.environ.get("VERIF_TIER", "quick")
    replay = None
    rest = argv[2:]
    i = 0
    while i < len(rest):
        if rest[i] in ("quick", "thorough"):
            tier = rest[i]
        elif rest[i] == "--replay":
            replay = rest[i + 1]
            i += 1
        i += 1
    seed = int(os.environ.get("VERIF_SEED", "1") or "1")
    sys.path.insert(0, VERIF)
    mod = importlib.import_module("checks." + prop)
    ctx = Ctx(prop, tier, seed, replay)
    try:
        rc = mod.run(ctx)
    finally:
        ctx.cleanup()
    return rc
